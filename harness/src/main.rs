//! fvh — the flurry verification harness.
//!
//! `fvh run --jobs <file.ndjson> --out <file.ndjson>` executes jobs (one JSON object per line)
//! against the real crate and writes one trace per job. See DESIGN.md §5.

#![allow(dead_code)]
mod alloc;
mod bulk;
mod kv;
mod ops;
mod sched;
mod snap;

use std::io::{BufRead, Write};
use std::sync::Arc;

use flurry::{HashMap, HashSet};
use serde::Deserialize;
use serde_json::{json, Value};

use kv::{HashMode, Key, Val, H};
use ops::{Logger, MapSession, Op, SetSession, HARNESS_YIELD};
use sched::{Exec, Outcome, Strategy};

#[global_allocator]
static GLOBAL: alloc::QAlloc = alloc::QAlloc;

#[derive(Deserialize, Clone, Debug, Default)]
pub struct HasherSpec {
    #[serde(default)]
    pub kind: String,
    #[serde(default)]
    pub table: Vec<u64>,
}

#[derive(Deserialize, Clone, Debug)]
pub struct Job {
    pub id: String,
    #[serde(default)]
    pub kind: String,
    #[serde(default)]
    pub pin: bool,
    /// "thread": one guard per thread program; "op": one guard per operation
    #[serde(default)]
    pub scope: String,
    #[serde(default)]
    pub hasher: HasherSpec,
    #[serde(default)]
    pub cap: usize,
    /// collector batch size (0 = seize default)
    #[serde(default)]
    pub batch: usize,
    #[serde(default)]
    pub prefix: Vec<Op>,
    #[serde(default)]
    pub threads: Vec<Vec<Op>>,
    #[serde(default)]
    pub sched: Value,
    #[serde(default)]
    pub budget: u64,
    /// keys looked up (and logged as part of the history) after all threads joined
    #[serde(default)]
    pub finals: Vec<u32>,
    /// observe len / iteration / every key of `finals` / structure after each prefix op
    #[serde(default)]
    pub check_each: bool,
    /// event classes to record: "step", "mem", "site", "snap"
    #[serde(default)]
    pub rec: Vec<String>,
    #[serde(default)]
    pub no_yield_relaxed: bool,
    /// scripted schedule prefix: see `run_script`
    #[serde(default)]
    pub script: Vec<Value>,
    /// probe (C12): {"reader": t, "freeze_after": j, "max": B}: run the other threads for j steps
    /// under the strategy, freeze them, run thread t alone
    #[serde(default)]
    pub probe: Value,
}

pub fn hash_mode(h: &HasherSpec) -> HashMode {
    match h.kind.as_str() {
        "default" => HashMode::Default(flurry::DefaultHashBuilder::default()),
        _ => HashMode::Table(Arc::new(h.table.clone())),
    }
}

fn collector(batch: usize) -> seize::Collector {
    // epoch tracking off: every guard that is active at a retirement protects the object, which is
    // the model Trace_Reclaim checks (with epochs seize may skip guards that provably never saw it)
    let c = seize::Collector::new().epoch_frequency(None);
    if batch > 0 {
        c.batch_size(batch)
    } else {
        c
    }
}

enum Coll {
    Map(HashMap<Key, Val, H>),
    Set(HashSet<Key, H>),
}

fn observe(c: &Coll, h: &H, universe: &[u32], with_snap: bool) -> Value {
    sched::suppressed(|| match c {
        Coll::Map(m) => {
            let g = m.guard();
            let mut items: Vec<(u32, u32, u64)> = m.iter(&g).map(|(k, v)| (k.id, k.tag, v.uid)).collect();
            items.sort();
            let gets: Vec<Value> = universe
                .iter()
                .map(|k| {
                    let r = m.get_key_value(&Key::probe(*k), &g);
                    json!([k, r.map(|(k, _)| k.tag).unwrap_or(0), r.map(|(_, v)| v.uid).unwrap_or(0)])
                })
                .collect();
            let snap = if with_snap {
                snap::project(&m.verif_snapshot(&g), h, &snap::val_uid, false)
            } else {
                Value::Null
            };
            json!({"len": m.len(), "empty": m.is_empty() as u8,
                   "items": items.iter().map(|(k, t, v)| json!([k, t, v])).collect::<Vec<_>>(),
                   "gets": gets, "snap": snap})
        }
        Coll::Set(s) => {
            let g = s.guard();
            let mut items: Vec<(u32, u32, u64)> = s.iter(&g).map(|k| (k.id, k.tag, 1)).collect();
            items.sort();
            let gets: Vec<Value> = universe
                .iter()
                .map(|k| {
                    let r = s.get(&Key::probe(*k), &g);
                    json!([k, r.map(|k| k.tag).unwrap_or(0), r.is_some() as u8])
                })
                .collect();
            let snap = if with_snap {
                let mg = s.verif_map().guard();
                let sn = s.verif_map().verif_snapshot(&mg);
                snap::project(&sn, h, &snap::unit_uid, false)
            } else {
                Value::Null
            };
            json!({"len": s.len(), "empty": s.is_empty() as u8,
                   "items": items.iter().map(|(k, t, v)| json!([k, t, v])).collect::<Vec<_>>(),
                   "gets": gets, "snap": snap})
        }
    })
}

fn call_event(t: usize, i: usize, op: &Op) -> Value {
    json!({"e": "call", "t": t, "i": i, "op": op.op, "k": op.k, "tag": op.tag, "v": op.n, "pl": op.pl, "f": op.f, "n": op.n,
           "g": op.guard, "keys": op.keys, "pa": op.panic_at})
}

fn ret_event(t: usize, i: usize, r: Value) -> Value {
    let mut m = serde_json::Map::new();
    m.insert("e".into(), json!("ret"));
    m.insert("t".into(), json!(t));
    m.insert("i".into(), json!(i));
    if let Value::Object(o) = r {
        for (k, v) in o {
            m.insert(k, v);
        }
    }
    Value::Object(m)
}

fn run_program(
    coll: &Coll,
    job: &Job,
    prog: &[Op],
    exec: &Arc<Exec>,
    tid: usize,
    foreign: &seize::Collector,
    sequential_obs: Option<&H>,
) {
    let lg = Logger {
        exec: exec.clone(),
        tid,
    };
    let per_op = job.scope == "op";
    static NEXT_G: std::sync::atomic::AtomicU64 = std::sync::atomic::AtomicU64::new(1);
    let newg = || NEXT_G.fetch_add(1, std::sync::atomic::Ordering::SeqCst);
    match coll {
        Coll::Map(map) => {
            let mut gid = newg();
            lg.log(json!({"e": "genter", "t": tid, "g": gid}));
            let mut sess = Some(MapSession::new(map, job.pin, foreign));
            for (i, op) in prog.iter().enumerate() {
                exec.on_hook(tid, HARNESS_YIELD, &[]);
                if per_op && i > 0 {
                    gid = newg();
                    lg.log(json!({"e": "genter", "t": tid, "g": gid}));
                    sess = Some(MapSession::new(map, job.pin, foreign));
                }
                if op.op == "obs" {
                    // explicit observation point (quiescent by construction in sequential programs)
                    let hh = H(hash_mode(&job.hasher));
                    let o = observe(coll, &hh, &job.finals, true);
                    lg.log(json!({"e": "obs", "t": tid, "i": i, "o": o}));
                    continue;
                }
                lg.log(call_event(tid, i, op));
                let r = sess.as_mut().unwrap().run(op, i, &lg);
                lg.log(ret_event(tid, i, r));
                if let Some(h) = sequential_obs {
                    let o = observe(coll, h, &job.finals, job.rec.iter().any(|r| r == "snap"));
                    lg.log(json!({"e": "obs", "t": tid, "i": i, "o": o}));
                }
                if per_op {
                    let (n, bad) = sess.as_mut().unwrap().check_held();
                    lg.log(json!({"e": "canary", "t": tid, "g": gid, "n": n, "bad": bad}));
                    // logged first: the reclamation this release triggers happens inside the drop
                    lg.log(json!({"e": "gleave", "t": tid, "g": gid}));
                    sess = None;
                }
            }
            if let Some(mut s) = sess.take() {
                let (n, bad) = s.check_held();
                lg.log(json!({"e": "canary", "t": tid, "g": gid, "n": n, "bad": bad}));
                lg.log(json!({"e": "gleave", "t": tid, "g": gid}));
                drop(s);
            }
        }
        Coll::Set(set) => {
            let mut gid = newg();
            lg.log(json!({"e": "genter", "t": tid, "g": gid}));
            let mut sess = Some(SetSession::new(set, job.pin, foreign));
            for (i, op) in prog.iter().enumerate() {
                exec.on_hook(tid, HARNESS_YIELD, &[]);
                if per_op && i > 0 {
                    gid = newg();
                    lg.log(json!({"e": "genter", "t": tid, "g": gid}));
                    sess = Some(SetSession::new(set, job.pin, foreign));
                }
                lg.log(call_event(tid, i, op));
                let r = sess.as_mut().unwrap().run(op, i, &lg);
                lg.log(ret_event(tid, i, r));
                if let Some(h) = sequential_obs {
                    let o = observe(coll, h, &job.finals, job.rec.iter().any(|r| r == "snap"));
                    lg.log(json!({"e": "obs", "t": tid, "i": i, "o": o}));
                }
                if per_op {
                    lg.log(json!({"e": "gleave", "t": tid, "g": gid}));
                    sess = None;
                }
            }
            if let Some(s) = sess.take() {
                lg.log(json!({"e": "gleave", "t": tid, "g": gid}));
                drop(s);
            }
        }
    }
}

/// Scripted schedule prefix. Each element is one of
///   {"run": t, "until": {"kind": "store"|"load"|"cas"|"swap"|"lock"|"word"|"site"..., "nth": n,
///                        "ty": "bin"|"table"|"value", "w": "sc"|"ti"|"cnt"|"ls", "acc": "load"|"cas"|.., "before": bool}}
///       run thread t until it has been granted n events of that kind (stops right after the grant;
///       with "before": true it stops with the n-th matching access still pending)
///   {"run": t, "steps": n}     run thread t for n steps
///   {"finish": t}              run thread t until it is done or blocked
fn run_script(exec: &Arc<Exec>, script: &[Value]) {
    for s in script {
        if let Some(t) = s.get("finish").and_then(|x| x.as_u64()) {
            exec.run_solo(t as usize, 1_000_000);
            continue;
        }
        let t = s.get("run").and_then(|x| x.as_u64()).unwrap_or(0) as usize;
        if let Some(n) = s.get("steps").and_then(|x| x.as_u64()) {
            exec.run_solo(t, n);
            continue;
        }
        if let Some(u) = s.get("until") {
            let kind = u.get("kind").and_then(|x| x.as_str()).unwrap_or("store");
            let nth = u.get("nth").and_then(|x| x.as_u64()).unwrap_or(1);
            let ty = u.get("ty").and_then(|x| x.as_str());
            let before = u.get("before").and_then(|x| x.as_bool()).unwrap_or(false);
            let mut seen = 0;
            let mut guard = 0u64;
            while seen < nth && guard < 1_000_000 {
                guard += 1;
                let (runnable, _) = exec.settle_wait();
                if !runnable.contains(&t) {
                    break;
                }
                let p = exec.pending(t);
                let mut hit = sched::kind_name(p.kind) == kind;
                if hit {
                    if let Some(ty) = ty {
                        hit = sched::type_tag_pub(&p.args) == ty;
                    }
                }
                if hit && kind == "word" {
                    // optional filters on the control word and the access kind
                    let w = match p.args[1] { 1 => "sc", 2 => "ti", 3 => "cnt", 4 => "ls", _ => "red" };
                    let acc = match p.args[2] { 1 => "load", 2 => "store", 3 => "cas", _ => "add" };
                    if let Some(ww) = u.get("w").and_then(|x| x.as_str()) {
                        hit = hit && ww == w;
                    }
                    if let Some(aa) = u.get("acc").and_then(|x| x.as_str()) {
                        hit = hit && aa == acc;
                    }
                }
                if hit && before && seen + 1 == nth {
                    // stop with the matching access still pending
                    break;
                }
                exec.grant(t);
                if hit {
                    seen += 1;
                }
            }
            exec.settle_wait();
        }
    }
}

fn run_job(job: &Job) -> Value {
    let nthreads = job.threads.len();
    let main_tid = nthreads;
    kv::ledger_reset(job.rec.iter().any(|r| r == "mem"));
    alloc::begin();
    let mode = hash_mode(&job.hasher);
    kv::set_default_hash_mode(mode.clone());
    let h = H(mode);
    let foreign = seize::Collector::new();

    let exec = Exec::new(nthreads + 1);
    *kv::SINK.lock().unwrap() = Some(exec.clone());
    {
        let mut g = exec.m.lock().unwrap();
        g.rec_steps = job.rec.iter().any(|r| r == "step");
        g.rec_mem = job.rec.iter().any(|r| r == "mem");
        g.rec_sites = job.rec.iter().any(|r| r == "site");
        g.rec_alts = job.rec.iter().any(|r| r == "alts");
        g.yield_relaxed = !job.no_yield_relaxed;
        g.free_run = true;
        g.seq_mode = nthreads == 0;
        g.thr[main_tid].st = sched::St::Done;
    }
    let os_mode = job.sched.get("kind").and_then(|k| k.as_str()) == Some("os");

    // main thread: construct + prefix, free-running but recorded
    sched::attach(&exec, main_tid);
    let coll = Arc::new(if job.kind == "set" {
        Coll::Set(if job.cap == 0 {
            HashSet::with_hasher(h.clone())
        } else {
            HashSet::with_capacity_and_hasher(job.cap, h.clone())
        })
    } else {
        let m = if job.cap == 0 {
            HashMap::with_hasher(h.clone())
        } else {
            HashMap::with_capacity_and_hasher(job.cap, h.clone())
        };
        Coll::Map(m.with_collector(collector(job.batch)))
    });
    // initial table length and the addresses of the table / next_table fields (for step-level conformance)
    let (n0, fields) = sched::suppressed(|| match &*coll {
        Coll::Map(m) => {
            let g = m.guard();
            let sn = m.verif_snapshot(&g);
            (sn.tables.first().map(|t| t.bins.len()).unwrap_or(0), m.verif_field_addrs())
        }
        Coll::Set(s) => {
            let g = s.verif_map().guard();
            let sn = s.verif_map().verif_snapshot(&g);
            (sn.tables.first().map(|t| t.bins.len()).unwrap_or(0), s.verif_map().verif_field_addrs())
        }
    });
    exec.log(json!({"e": "layout", "n0": n0, "table": fields.0, "next_table": fields.1}));
    if job.rec.iter().any(|r| r == "mem") {
        let c2 = coll.clone();
        let f: sched::ReachFn = Box::new(move || match &*c2 {
            Coll::Map(m) => {
                let g = m.guard();
                snap::reachable(&m.verif_snapshot(&g))
            }
            Coll::Set(s) => {
                let g = s.verif_map().guard();
                snap::reachable(&s.verif_map().verif_snapshot(&g))
            }
        });
        *exec.reach.lock().unwrap() = Some(f);
    }
    if job.check_each {
        let o = observe(&coll, &h, &job.finals, job.rec.iter().any(|r| r == "snap"));
        exec.log(json!({"e": "obs", "t": main_tid, "i": -1, "o": o}));
    }
    run_program(
        &coll,
        job,
        &job.prefix,
        &exec,
        main_tid,
        &foreign,
        if job.check_each { Some(&h) } else { None },
    );
    sched::detach();
    exec.log(json!({"e": "prefix_end"}));

    let mut outcome = Outcome::Done;
    let mut drift = 0;
    if nthreads > 0 {
        {
            let mut g = exec.m.lock().unwrap();
            g.free_run = os_mode;
        }
        let mut handles = vec![];
        for (tid, prog) in job.threads.iter().enumerate() {
            let exec2 = exec.clone();
            let coll2 = coll.clone();
            let job2 = job.clone();
            let prog2 = prog.clone();
            let foreign2 = foreign.clone();
            handles.push(
                std::thread::Builder::new()
                    .name(format!("w{}", tid))
                    .spawn(move || {
                        sched::attach(&exec2, tid);
                        exec2.on_hook(tid, HARNESS_YIELD, &[]);
                        let r = std::panic::catch_unwind(std::panic::AssertUnwindSafe(|| {
                            run_program(&coll2, &job2, &prog2, &exec2, tid, &foreign2, None);
                        }));
                        if r.is_err() {
                            exec2.log(json!({"e": "thread_panic", "t": tid}));
                        }
                        drop(coll2);
                        exec2.finish(tid);
                        sched::detach();
                    })
                    .unwrap(),
            );
        }
        if os_mode {
            for hd in handles {
                let _ = hd.join();
            }
        } else {
            run_script(&exec, &job.script);
            let mut strat = Strategy::from_json(&job.sched, nthreads);
            let budget = if job.budget == 0 { 200_000 } else { job.budget };
            if job.probe.is_object() {
                let reader = job.probe["reader"].as_u64().unwrap_or(0) as usize;
                let j = job.probe["freeze_after"].as_u64().unwrap_or(0);
                let maxs = job.probe["max"].as_u64().unwrap_or(100_000);
                // the writers run for j steps (the reader is held back) ...
                let taken = exec.run_excluding(&mut strat, j, reader);
                // ... are frozen wherever they are, and the reader runs alone
                let snap = {
                    let hh = H(hash_mode(&job.hasher));
                    observe(&coll, &hh, &[], true)
                };
                let before = exec.counters(reader);
                let n = exec.run_solo(reader, maxs);
                let after = exec.counters(reader);
                let done = exec.is_done(reader);
                exec.log(json!({"e": "probe", "reader": reader, "writer_steps": taken, "reader_steps": n,
                    "done": done as u8, "locks": after.1 - before.1, "parks": after.2 - before.2, "spins": after.3 - before.3,
                    "snap": snap["snap"].clone()}));
            }
            outcome = exec.run(&mut strat, budget);
            drift = strat.drift();
            if outcome == Outcome::Done {
                for hd in handles {
                    let _ = hd.join();
                }
            } else {
                exec.abort();
                // the worker threads are left parked forever; the job's map is leaked
            }
        }
    }

    let mut end = json!({});
    if outcome == Outcome::Done {
        {
            let mut g = exec.m.lock().unwrap();
            g.free_run = true;
        }
        sched::attach(&exec, main_tid);
        // the final lookups are part of the history
        let finals: Vec<Op> = job
            .finals
            .iter()
            .map(|k| Op {
                op: "get_key_value".into(),
                k: *k,
                ..Default::default()
            })
            .collect();
        if !job.check_each {
            let mut j2 = job.clone();
            j2.scope = "thread".into();
            run_program(&coll, &j2, &finals, &exec, main_tid, &foreign, None);
            let o = observe(&coll, &h, &job.finals, true);
            exec.log(json!({"e": "quiescent", "o": o}));
        }
        // teardown
        *exec.reach.lock().unwrap() = None;
        let coll = Arc::try_unwrap(coll).ok();
        let dropped_ok = std::panic::catch_unwind(std::panic::AssertUnwindSafe(|| drop(coll))).is_ok();
        drop(foreign);
        exec.on_hook(main_tid, 0, &[]); // settle: record the frees of the teardown
        sched::detach();
        let (created, dropped, viol) = kv::ledger_stats();
        let alive = kv::ledger_alive();
        for ev in kv::ledger_drain() {
            exec.log(ev);
        }
        let (live_blocks, quarantined, corrupted, overflow) = alloc::end();
        let double_free = alloc::double_frees();
        end = json!({"double_free": double_free,"created": created, "dropped": dropped, "ledger_violations": viol,
                     "alive": alive.len(), "alive_sample": alive.iter().take(8).collect::<Vec<_>>(),
                     "live_blocks": live_blocks, "quarantined": quarantined,
                     "corrupted": corrupted.len(), "overflow": overflow, "drop_ok": dropped_ok});
    } else {
        for ev in kv::ledger_drain() {
            exec.log(ev);
        }
        alloc::end();
    }
    *kv::SINK.lock().unwrap() = None;
    let g = exec.m.lock().unwrap();
    let per_thread: Vec<Value> = g
        .thr
        .iter()
        .map(|t| json!({"steps": t.steps, "locks": t.lock_events, "parks": t.park_events, "spins": t.spin_events}))
        .collect();
    json!({"id": job.id, "outcome": format!("{:?}", outcome), "nsteps": g.nsteps, "uaf": g.uaf,
           "drift": drift, "schedule": g.schedule, "alts": g.alts, "threads": per_thread, "end": end, "ev": g.trace})
}

fn main() {
    let args: Vec<String> = std::env::args().collect();
    let get = |name: &str| -> Option<String> {
        args.iter()
            .position(|a| a == name)
            .and_then(|i| args.get(i + 1).cloned())
    };
    std::panic::set_hook(Box::new(|info| {
        if std::env::var("FVH_PANIC_VERBOSE").is_ok() {
            eprintln!("panic: {}", info);
        }
    }));
    sched::install_hook();
    let cmd = args.get(1).map(|s| s.as_str()).unwrap_or("");
    match cmd {
        "run" => {
            let jobs = get("--jobs").expect("--jobs");
            let out = get("--out").expect("--out");
            let f = std::io::BufReader::new(std::fs::File::open(&jobs).expect("open jobs"));
            let mut o = std::io::BufWriter::new(std::fs::File::create(&out).expect("create out"));
            let stdout = std::io::stdout();
            for line in f.lines() {
                let line = line.unwrap();
                if line.trim().is_empty() {
                    continue;
                }
                let job: Job = match serde_json::from_str(&line) {
                    Ok(j) => j,
                    Err(e) => {
                        eprintln!("bad job: {} in {}", e, &line[..line.len().min(200)]);
                        std::process::exit(2);
                    }
                };
                {
                    let mut so = stdout.lock();
                    writeln!(so, "BEGIN {}", job.id).unwrap();
                    so.flush().unwrap();
                }
                let r = if job.kind == "bulk" {
                    bulk::run_bulk(&job, &line)
                } else {
                    run_job(&job)
                };
                writeln!(o, "{}", r).unwrap();
                o.flush().unwrap();
                {
                    let mut so = stdout.lock();
                    writeln!(so, "END {}", job.id).unwrap();
                    so.flush().unwrap();
                }
            }
        }
        "consts" => {
            let c = flurry::verif::consts();
            println!(
                "{}",
                json!({"maximum_capacity": c.maximum_capacity, "default_capacity": c.default_capacity,
                   "treeify_threshold": c.treeify_threshold, "untreeify_threshold": c.untreeify_threshold,
                   "min_treeify_capacity": c.min_treeify_capacity, "min_transfer_stride": c.min_transfer_stride,
                   "resize_stamp_bits": c.resize_stamp_bits, "resize_stamp_shift": c.resize_stamp_shift,
                   "max_resizers": c.max_resizers as i64, "ncpu": c.ncpu,
                   "stamps": (0..=30).map(|k| flurry::verif::resize_stamp(1usize << k) as i64).collect::<Vec<i64>>()})
            );
        }
        _ => {
            eprintln!("usage: fvh run --jobs <file> --out <file> | fvh consts");
            std::process::exit(2);
        }
    }
}
