//! Instrumented key / value types, table-driven hashers and the instance ledger.
//!
//! `Key { id, tag }`: `Eq`/`Ord`/`Hash` look at `id` only, so "which key instance is stored"
//! (the tag) is observable. Every `Key` and `Val` instance has a unique instance number; the
//! ledger records creation, cloning and dropping of every instance, and any use of an instance
//! after its drop.

use std::cell::Cell;
use std::cmp::Ordering as CmpOrd;
use std::hash::{BuildHasher, Hash, Hasher};
use std::sync::atomic::{AtomicU64, Ordering};
use std::sync::{Arc, Mutex};

use serde_json::{json, Value};

// ---------------------------------------------------------------------------------------------
// ledger

#[derive(Default)]
pub struct Ledger {
    /// 0 = unknown, 1 = alive, 2 = dropped
    state: Vec<u8>,
    /// events since the last drain
    pub events: Vec<Value>,
    pub enabled: bool,
    /// comparisons (eq + cmp) made on keys since the last reset
    pub cmp_count: u64,
    pub created: u64,
    pub dropped: u64,
    pub violations: u64,
}

pub static LEDGER: Mutex<Option<Ledger>> = Mutex::new(None);
/// Where ledger events go (the running job's trace), so that they appear at their position.
pub static SINK: Mutex<Option<Arc<crate::sched::Exec>>> = Mutex::new(None);

fn emit(l: &mut Ledger, v: Value) {
    let sink = SINK.lock().unwrap().clone();
    match sink {
        Some(x) => x.log(v),
        None => l.events.push(v),
    }
}
static NEXT_INST: AtomicU64 = AtomicU64::new(1);
static NEXT_UID: AtomicU64 = AtomicU64::new(1);

thread_local! {
    /// logical thread id used in ledger events
    pub static LTID: Cell<u32> = const { Cell::new(0) };
}

pub fn ledger_reset(enabled: bool) {
    let mut g = LEDGER.lock().unwrap();
    *g = Some(Ledger {
        enabled,
        ..Default::default()
    });
    NEXT_INST.store(1, Ordering::SeqCst);
    NEXT_UID.store(1, Ordering::SeqCst);
}

pub fn ledger_drain() -> Vec<Value> {
    let mut g = LEDGER.lock().unwrap();
    match g.as_mut() {
        Some(l) => std::mem::take(&mut l.events),
        None => vec![],
    }
}

pub fn ledger_stats() -> (u64, u64, u64) {
    let g = LEDGER.lock().unwrap();
    match g.as_ref() {
        Some(l) => (l.created, l.dropped, l.violations),
        None => (0, 0, 0),
    }
}

pub fn cmp_count_reset() {
    if let Some(l) = LEDGER.lock().unwrap().as_mut() {
        l.cmp_count = 0;
    }
}
pub fn cmp_count() -> u64 {
    LEDGER
        .lock()
        .unwrap()
        .as_ref()
        .map(|l| l.cmp_count)
        .unwrap_or(0)
}

/// Instances that are alive right now: (inst, kind) — used for the end-of-run leak check.
pub fn ledger_alive() -> Vec<u64> {
    let g = LEDGER.lock().unwrap();
    match g.as_ref() {
        Some(l) => l
            .state
            .iter()
            .enumerate()
            .filter(|(_, s)| **s == 1)
            .map(|(i, _)| i as u64)
            .collect(),
        None => vec![],
    }
}

fn fresh_inst(kind: &'static str, what: &'static str, from: u64, a: u64, b: u64) -> u64 {
    let inst = NEXT_INST.fetch_add(1, Ordering::SeqCst);
    let mut g = LEDGER.lock().unwrap();
    if let Some(l) = g.as_mut() {
        let i = inst as usize;
        if l.state.len() <= i {
            l.state.resize(i + 64, 0);
        }
        l.state[i] = 1;
        l.created += 1;
        if l.enabled {
            let t = LTID.with(|t| t.get());
            emit(
                l,
                json!({"e": what, "t": t, "obj": kind, "inst": inst, "from": from, "a": a, "b": b}),
            );
        }
    }
    inst
}

fn note_drop(kind: &'static str, inst: u64) {
    let mut g = LEDGER.lock().unwrap();
    if let Some(l) = g.as_mut() {
        let i = inst as usize;
        let st = l.state.get(i).copied().unwrap_or(0);
        let t = LTID.with(|t| t.get());
        if st == 2 {
            l.violations += 1;
            emit(l, json!({"e": "double_drop", "t": t, "obj": kind, "inst": inst}));
        } else if st == 1 {
            l.state[i] = 2;
            l.dropped += 1;
            if l.enabled {
                emit(l, json!({"e": "drop", "t": t, "obj": kind, "inst": inst}));
            }
        }
        // st == 0: instance of an earlier job (ledger was reset) - ignore
    }
}

fn note_use(kind: &'static str, inst: u64, how: &'static str) {
    let mut g = LEDGER.lock().unwrap();
    if let Some(l) = g.as_mut() {
        if how != "hash" {
            l.cmp_count += 1;
        }
        let i = inst as usize;
        if l.state.get(i).copied().unwrap_or(0) == 2 {
            l.violations += 1;
            let t = LTID.with(|t| t.get());
            emit(
                l,
                json!({"e": "use_after_drop", "t": t, "obj": kind, "inst": inst, "how": how}),
            );
        }
    }
}

/// Is this instance alive according to the ledger (used for canary re-reads)?
pub fn is_alive(inst: u64) -> bool {
    let g = LEDGER.lock().unwrap();
    match g.as_ref() {
        Some(l) => l.state.get(inst as usize).copied().unwrap_or(0) == 1,
        None => true,
    }
}

// ---------------------------------------------------------------------------------------------
// Key

pub struct Key {
    pub id: u32,
    pub tag: u32,
    pub inst: u64,
}

impl Key {
    pub fn new(id: u32, tag: u32) -> Key {
        Key {
            id,
            tag,
            inst: fresh_inst("k", "create", 0, id as u64, tag as u64),
        }
    }
    /// A lookup key: not tracked by the ledger (never enters the map).
    pub fn probe(id: u32) -> Key {
        Key {
            id,
            tag: u32::MAX,
            inst: 0,
        }
    }
}

impl Clone for Key {
    fn clone(&self) -> Key {
        if self.inst == 0 {
            return Key {
                id: self.id,
                tag: self.tag,
                inst: 0,
            };
        }
        note_use("k", self.inst, "clone");
        Key {
            id: self.id,
            tag: self.tag,
            inst: fresh_inst("k", "clone", self.inst, self.id as u64, self.tag as u64),
        }
    }
}

impl Drop for Key {
    fn drop(&mut self) {
        if self.inst != 0 {
            note_drop("k", self.inst);
        }
    }
}

impl PartialEq for Key {
    fn eq(&self, o: &Key) -> bool {
        if self.inst != 0 {
            note_use("k", self.inst, "eq");
        } else if o.inst != 0 {
            note_use("k", o.inst, "eq");
        } else {
            note_use("k", 0, "eq");
        }
        if self.inst != 0 && o.inst != 0 {
            // both tracked: check the other one too (without counting twice)
            if !is_alive(o.inst) {
                note_use("k", o.inst, "hash");
            }
        }
        self.id == o.id
    }
}
impl Eq for Key {}
impl PartialOrd for Key {
    fn partial_cmp(&self, o: &Key) -> Option<CmpOrd> {
        Some(self.cmp(o))
    }
}
impl Ord for Key {
    fn cmp(&self, o: &Key) -> CmpOrd {
        if self.inst != 0 {
            note_use("k", self.inst, "cmp");
        } else if o.inst != 0 {
            note_use("k", o.inst, "cmp");
        } else {
            note_use("k", 0, "cmp");
        }
        self.id.cmp(&o.id)
    }
}
impl Hash for Key {
    fn hash<H: Hasher>(&self, h: &mut H) {
        if self.inst != 0 {
            note_use("k", self.inst, "hash");
        }
        h.write_u64(self.id as u64);
    }
}
impl std::fmt::Debug for Key {
    fn fmt(&self, f: &mut std::fmt::Formatter<'_>) -> std::fmt::Result {
        write!(f, "K{}.{}", self.id, self.tag)
    }
}

// ---------------------------------------------------------------------------------------------
// Val

pub struct Val {
    pub uid: u64,
    pub payload: i64,
    pub inst: u64,
}

pub fn fresh_uid() -> u64 {
    NEXT_UID.fetch_add(1, Ordering::SeqCst)
}

impl Val {
    pub fn new(uid: u64, payload: i64) -> Val {
        Val {
            uid,
            payload,
            inst: fresh_inst("v", "create", 0, uid, payload as u64),
        }
    }
    pub fn check(&self) -> bool {
        is_alive(self.inst)
    }
}
impl Clone for Val {
    fn clone(&self) -> Val {
        note_use("v", self.inst, "clone");
        Val {
            uid: self.uid,
            payload: self.payload,
            inst: fresh_inst("v", "clone", self.inst, self.uid, self.payload as u64),
        }
    }
}
impl Drop for Val {
    fn drop(&mut self) {
        note_drop("v", self.inst);
    }
}
/// Values compare by payload (uid is identity, not content).
impl PartialEq for Val {
    fn eq(&self, o: &Val) -> bool {
        self.payload == o.payload
    }
}
impl Eq for Val {}
impl std::fmt::Debug for Val {
    fn fmt(&self, f: &mut std::fmt::Formatter<'_>) -> std::fmt::Result {
        write!(f, "V{}", self.payload)
    }
}

// ---------------------------------------------------------------------------------------------
// hashers

#[derive(Clone, Debug)]
pub enum HashMode {
    /// hash(id) = table[id] (ids beyond the table hash to id)
    Table(Arc<Vec<u64>>),
    /// the crate's default hasher
    Default(flurry::DefaultHashBuilder),
}

#[derive(Clone, Debug)]
pub struct H(pub HashMode);

static DEFAULT_MODE: Mutex<Option<HashMode>> = Mutex::new(None);

/// Sets what `H::default()` produces (used by `collect`, serde, rayon which need `S: Default`).
pub fn set_default_hash_mode(m: HashMode) {
    *DEFAULT_MODE.lock().unwrap() = Some(m);
}

impl Default for H {
    fn default() -> H {
        H(DEFAULT_MODE
            .lock()
            .unwrap()
            .clone()
            .unwrap_or_else(|| HashMode::Table(Arc::new(vec![]))))
    }
}

pub enum HH {
    Table(Arc<Vec<u64>>, u64),
    Default(flurry::DefaultHasher),
}

impl Hasher for HH {
    fn finish(&self) -> u64 {
        match self {
            HH::Table(t, id) => t.get(*id as usize).copied().unwrap_or(*id),
            HH::Default(h) => h.finish(),
        }
    }
    fn write(&mut self, bytes: &[u8]) {
        match self {
            HH::Table(_, id) => {
                for b in bytes {
                    *id = (*id << 8) | *b as u64;
                }
            }
            HH::Default(h) => h.write(bytes),
        }
    }
    fn write_u64(&mut self, i: u64) {
        match self {
            HH::Table(_, id) => *id = i,
            HH::Default(h) => h.write_u64(i),
        }
    }
    fn write_u32(&mut self, i: u32) {
        match self {
            HH::Table(_, id) => *id = i as u64,
            HH::Default(h) => h.write_u32(i),
        }
    }
}

impl BuildHasher for H {
    type Hasher = HH;
    fn build_hasher(&self) -> HH {
        match &self.0 {
            HashMode::Table(t) => HH::Table(t.clone(), 0),
            HashMode::Default(d) => HH::Default(d.build_hasher()),
        }
    }
}

impl H {
    pub fn hash_of(&self, id: u32) -> u64 {
        self.hash_one(Key::probe(id))
    }
}
