//! Bulk paths: serde (Serialize / Deserialize), rayon (par_extend / from_par_iter), collect /
//! extend from iterators with lying size hints (C19, and the FromIterator part of C03).

use std::panic::{catch_unwind, AssertUnwindSafe};

use flurry::{HashMap, HashSet};
use rayon::prelude::*;
use serde::Deserialize;
use serde_json::{json, Value};

use crate::alloc;
use crate::kv::{self, Key, Val, H};
use crate::sched::{self, Exec};

#[derive(Deserialize, Clone, Debug, Default)]
pub struct Bulk {
    pub how: String,
    /// entries [k, v] (serde / rayon, plain integer keys and values) or [k, tag, uid, pl] (collect / extend)
    #[serde(default)]
    pub entries: Vec<Vec<i64>>,
    /// entries [k, v] inserted sequentially before a parallel extend
    #[serde(default)]
    pub pre: Vec<Vec<i64>>,
    /// raw document text for deserialisation (if empty it is built from `entries`)
    #[serde(default)]
    pub doc: String,
    #[serde(default)]
    pub pool: usize,
    /// size hint of the iterator given to collect / extend:
    /// "exact" (rem, Some(rem)) | "lower" (rem, None) | "zero" (0, None) | "half" (n/2, None) |
    /// "exact_half" (n/2, Some(n/2)) | "exact_zero" (0, Some(0)) - the last two lie about the upper bound
    #[serde(default)]
    pub hint: String,
}

struct Hinted<I> {
    it: I,
    /// items not yet yielded
    rem: usize,
    n: usize,
    hint: String,
}
impl<I: Iterator> Hinted<I> {
    fn new(it: I, n: usize, hint: &str) -> Self {
        Hinted { it, rem: n, n, hint: hint.to_string() }
    }
}
impl<I: Iterator> Iterator for Hinted<I> {
    type Item = I::Item;
    fn next(&mut self) -> Option<I::Item> {
        self.rem = self.rem.saturating_sub(1);
        self.it.next()
    }
    fn size_hint(&self) -> (usize, Option<usize>) {
        match self.hint.as_str() {
            "zero" => (0, None),
            "half" => (self.n / 2, None),
            "lower" => (self.rem, None),
            "exact_half" => (self.n / 2, Some(self.n / 2)),
            "exact_zero" => (0, Some(0)),
            _ => (self.rem, Some(self.rem)),
        }
    }
}

fn doc_map(entries: &[Vec<i64>]) -> String {
    let body: Vec<String> = entries.iter().map(|e| format!("\"{}\":{}", e[0], e[1])).collect();
    format!("{{{}}}", body.join(","))
}
fn doc_set(entries: &[Vec<i64>]) -> String {
    let body: Vec<String> = entries.iter().map(|e| format!("{}", e[0])).collect();
    format!("[{}]", body.join(","))
}

fn map_items(m: &HashMap<u32, i64, H>) -> Vec<Value> {
    let g = m.guard();
    let mut v: Vec<(u32, i64)> = m.iter(&g).map(|(k, v)| (*k, *v)).collect();
    v.sort();
    v.into_iter().map(|(k, v)| json!([k, v])).collect()
}
fn set_items(s: &HashSet<u32, H>) -> Vec<Value> {
    let g = s.guard();
    let mut v: Vec<u32> = s.iter(&g).copied().collect();
    v.sort();
    v.into_iter().map(|k| json!([k, 1])).collect()
}

pub fn run_bulk(job: &crate::Job, raw: &str) -> Value {
    #[derive(Deserialize)]
    struct Wrap {
        bulk: Bulk,
    }
    let b: Bulk = match serde_json::from_str::<Wrap>(raw) {
        Ok(w) => w.bulk,
        Err(e) => return json!({"id": job.id, "outcome": "BadJob", "err": e.to_string(), "ev": []}),
    };
    kv::ledger_reset(false);
    alloc::begin();
    let mode = crate::hash_mode(&job.hasher);
    kv::set_default_hash_mode(mode.clone());
    let exec = Exec::new(1);
    {
        let mut g = exec.m.lock().unwrap();
        g.free_run = true;
        g.rec_mem = false;
        g.rec_sites = false;
        g.thr[0].st = sched::St::Done;
    }
    *kv::SINK.lock().unwrap() = Some(exec.clone());
    sched::attach(&exec, 0);
    let b2 = b.clone();
    let r = catch_unwind(AssertUnwindSafe(move || -> Value {
        let b = b2;
        match b.how.as_str() {
            "serde_map" => {
                let doc = if b.doc.is_empty() { doc_map(&b.entries) } else { b.doc.clone() };
                match serde_json::from_str::<HashMap<u32, i64, H>>(&doc) {
                    Ok(m) => json!({"outcome": "ok", "items": map_items(&m)}),
                    Err(_) => json!({"outcome": "err", "items": []}),
                }
            }
            "serde_set" => {
                let doc = if b.doc.is_empty() { doc_set(&b.entries) } else { b.doc.clone() };
                match serde_json::from_str::<HashSet<u32, H>>(&doc) {
                    Ok(s) => json!({"outcome": "ok", "items": set_items(&s)}),
                    Err(_) => json!({"outcome": "err", "items": []}),
                }
            }
            // collections of zero-sized elements: HashSet<()> / HashMap<(), ()> (entries [0, 0] each stand for one `null`)
            "serde_zset" => {
                let doc = if b.doc.is_empty() { format!("[{}]", vec!["null"; b.entries.len()].join(",")) } else { b.doc.clone() };
                match serde_json::from_str::<HashSet<(), H>>(&doc) {
                    Ok(s) => {
                        let g = s.guard();
                        let c = s.iter(&g).count();
                        let back = serde_json::to_string(&s).unwrap_or_default();
                        let again = serde_json::from_str::<HashSet<(), H>>(&back).map(|t| t.len()).unwrap_or(usize::MAX);
                        json!({"outcome": if again == s.len() { "ok" } else { "mismatch" }, "items": vec![json!([0, 1]); c], "len": s.len()})
                    }
                    Err(_) => json!({"outcome": "err", "items": []}),
                }
            }
            "serde_zmap" => {
                let doc = if b.doc.is_empty() { "{}".to_string() } else { b.doc.clone() };
                match serde_json::from_str::<HashMap<(), (), H>>(&doc) {
                    Ok(m) => json!({"outcome": "ok", "items": vec![json!([0, 0]); m.len()], "len": m.len()}),
                    Err(_) => json!({"outcome": "err", "items": []}),
                }
            }
            // the same documents through serde_json::Value, whose accessors report exact size hints
            "value_map" => {
                let doc = if b.doc.is_empty() { doc_map(&b.entries) } else { b.doc.clone() };
                match serde_json::from_str::<Value>(&doc).and_then(serde_json::from_value::<HashMap<u32, i64, H>>) {
                    Ok(m) => json!({"outcome": "ok", "items": map_items(&m)}),
                    Err(_) => json!({"outcome": "err", "items": []}),
                }
            }
            "value_set" => {
                let doc = if b.doc.is_empty() { doc_set(&b.entries) } else { b.doc.clone() };
                match serde_json::from_str::<Value>(&doc).and_then(serde_json::from_value::<HashSet<u32, H>>) {
                    Ok(s) => json!({"outcome": "ok", "items": set_items(&s)}),
                    Err(_) => json!({"outcome": "err", "items": []}),
                }
            }
            "roundtrip_map" => {
                let m: HashMap<u32, i64, H> = HashMap::with_hasher(H::default());
                {
                    let g = m.guard();
                    for e in &b.entries {
                        m.insert(e[0] as u32, e[1], &g);
                    }
                }
                let s1 = serde_json::to_string(&m).unwrap();
                let s2 = serde_json::to_string(&m.pin()).unwrap();
                let m2: HashMap<u32, i64, H> = serde_json::from_str(&s1).unwrap();
                let m3: HashMap<u32, i64, H> = serde_json::from_str(&s2).unwrap();
                json!({"outcome": "ok", "items": map_items(&m2), "orig": map_items(&m), "eq": (m == m2 && m2 == m && m == m3) as u8})
            }
            "roundtrip_set" => {
                let s: HashSet<u32, H> = HashSet::with_hasher(H::default());
                {
                    let g = s.guard();
                    for e in &b.entries {
                        s.insert(e[0] as u32, &g);
                    }
                }
                let t1 = serde_json::to_string(&s).unwrap();
                let t2 = serde_json::to_string(&s.pin()).unwrap();
                let s2: HashSet<u32, H> = serde_json::from_str(&t1).unwrap();
                let s3: HashSet<u32, H> = serde_json::from_str(&t2).unwrap();
                json!({"outcome": "ok", "items": set_items(&s2), "orig": set_items(&s), "eq": (s == s2 && s2 == s && s == s3) as u8})
            }
            "par_extend_map" | "from_par_iter_map" | "par_extend_mapref" => {
                let pool = rayon::ThreadPoolBuilder::new().num_threads(b.pool.max(1)).build().unwrap();
                let items: Vec<(u32, i64)> = b.entries.iter().map(|e| (e[0] as u32, e[1])).collect();
                let m: HashMap<u32, i64, H> = pool.install(|| match b.how.as_str() {
                    "from_par_iter_map" => items.into_par_iter().collect(),
                    "par_extend_mapref" => {
                        let m = HashMap::with_hasher(H::default());
                        for e in &b.pre {
                            m.pin().insert(e[0] as u32, e[1]);
                        }
                        m.pin().par_extend(items);
                        m
                    }
                    _ => {
                        let mut m = HashMap::with_hasher(H::default());
                        for e in &b.pre {
                            m.pin().insert(e[0] as u32, e[1]);
                        }
                        m.par_extend(items);
                        m
                    }
                });
                json!({"outcome": "ok", "items": map_items(&m), "len": m.len()})
            }
            "par_extend_set" | "from_par_iter_set" => {
                let pool = rayon::ThreadPoolBuilder::new().num_threads(b.pool.max(1)).build().unwrap();
                let items: Vec<u32> = b.entries.iter().map(|e| e[0] as u32).collect();
                let s: HashSet<u32, H> = pool.install(|| match b.how.as_str() {
                    "from_par_iter_set" => items.into_par_iter().collect(),
                    _ => {
                        let mut s = HashSet::with_hasher(H::default());
                        for e in &b.pre {
                            s.pin().insert(e[0] as u32);
                        }
                        s.par_extend(items);
                        s
                    }
                });
                json!({"outcome": "ok", "items": set_items(&s), "len": s.len()})
            }
            "collect_map" | "collect_set" | "extend_map" | "collect_map_ref" => {
                let n = b.entries.len();
                let its: Vec<(Key, Val)> = b
                    .entries
                    .iter()
                    .map(|e| (Key::new(e[0] as u32, e[1] as u32), Val::new(e[2] as u64, e[3])))
                    .collect();
                if b.how == "collect_set" {
                    let s: HashSet<Key, H> = Hinted::new(its.into_iter().map(|(k, _)| k), n, &b.hint).collect();
                    let g = s.guard();
                    let mut v: Vec<(u32, u32, u64)> = s.iter(&g).map(|k| (k.id, k.tag, 1)).collect();
                    v.sort();
                    let len = s.len();
                    drop(g);
                    drop(s);
                    json!({"outcome": "ok", "items": v.iter().map(|(k, t, u)| json!([k, t, u])).collect::<Vec<_>>(), "len": len})
                } else {
                    let m: HashMap<Key, Val, H> = if b.how == "extend_map" {
                        let m = HashMap::with_hasher(H::default());
                        let mut mr = &m;
                        mr.extend(Hinted::new(its.into_iter(), n, &b.hint));
                        m
                    } else {
                        Hinted::new(its.into_iter(), n, &b.hint).collect()
                    };
                    let g = m.guard();
                    let mut v: Vec<(u32, u32, u64)> = m.iter(&g).map(|(k, v)| (k.id, k.tag, v.uid)).collect();
                    v.sort();
                    let len = m.len();
                    drop(g);
                    drop(m);
                    json!({"outcome": "ok", "items": v.iter().map(|(k, t, u)| json!([k, t, u])).collect::<Vec<_>>(), "len": len})
                }
            }
            other => json!({"outcome": "unknown", "how": other}),
        }
    }));
    exec.on_hook(0, 0, &[]);
    sched::detach();
    *kv::SINK.lock().unwrap() = None;
    let (created, dropped, viol) = kv::ledger_stats();
    let alive = kv::ledger_alive().len();
    let (live_blocks, quarantined, corrupted, overflow) = alloc::end();
    let double_free = alloc::double_frees();
    let g = exec.m.lock().unwrap();
    let mut out = match r {
        Ok(v) => v,
        Err(_) => json!({"outcome": "panic", "items": []}),
    };
    let o = out.as_object_mut().unwrap();
    o.insert("id".into(), json!(job.id));
    o.insert("how".into(), json!(b.how));
    o.insert("uaf".into(), json!(g.uaf));
    o.insert(
        "end".into(),
        json!({"created": created, "dropped": dropped, "ledger_violations": viol, "alive": alive,
               "live_blocks": live_blocks, "quarantined": quarantined, "corrupted": corrupted.len(),
               "overflow": overflow, "double_free": double_free}),
    );
    o.insert("ev".into(), json!(g.trace));
    out
}
