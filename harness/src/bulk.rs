//! serde / rayon / collect bulk paths (C19, C03). Filled in later.
use serde_json::{json, Value};

pub fn run_bulk(job: &crate::Job, _raw: &str) -> Value {
    json!({"id": job.id, "outcome": "Unsupported", "ev": []})
}
