//! Cooperative scheduler: N real OS threads, one baton. Every hook of the instrumented crate is
//! a potential yield point; between two yield points exactly one thread runs. Blocking (bin
//! mutex, park, spin sites) is made visible to the scheduler instead of blocking the OS thread.

use std::cell::{Cell, RefCell};
use std::sync::{Arc, Condvar, Mutex};
use std::thread::ThreadId;

use flurry::verif as fv;
use rand::rngs::StdRng;
use rand::{Rng, SeedableRng};
use serde_json::{json, Value};

use crate::alloc;

#[derive(Clone, Copy, PartialEq, Debug)]
pub enum Wait {
    Ready,
    Lock(usize),
    Park,
    Spin(u64),
}

#[derive(Clone, Copy, PartialEq, Debug)]
pub enum St {
    Running,
    Waiting,
    Done,
}

pub struct Thr {
    pub st: St,
    pub wait: Wait,
    pub steps: u64,
    pub holds: Vec<usize>,
    pub token: bool,
    pub pending_unpark: Vec<usize>,
    pub os_id: Option<ThreadId>,
    pub last_kind: u32,
    pub last_args: [usize; 8],
    pub lock_events: u64,
    pub park_events: u64,
    pub spin_events: u64,
    pub own_progress: u64,
}

impl Thr {
    fn new() -> Thr {
        Thr {
            st: St::Running,
            wait: Wait::Ready,
            steps: 0,
            holds: vec![],
            token: false,
            pending_unpark: vec![],
            os_id: None,
            last_kind: 0,
            last_args: [0; 8],
            lock_events: 0,
            park_events: 0,
            spin_events: 0,
            own_progress: 0,
        }
    }
}

pub struct Inner {
    pub thr: Vec<Thr>,
    pub granted: Option<usize>,
    pub progress: u64,
    pub trace: Vec<Value>,
    pub schedule: Vec<u8>,
    pub nsteps: u64,
    /// record every scheduled step / atomic access in the trace
    pub rec_steps: bool,
    /// record retire/free/deref bookkeeping in the trace
    pub rec_mem: bool,
    /// record site events
    pub rec_sites: bool,
    /// record, per scheduling decision, the set of threads that could have been chosen (bounded-exhaustive exploration)
    pub rec_alts: bool,
    pub alts: Vec<u32>,
    /// threads run freely (no baton): hooks only record and check
    pub free_run: bool,
    /// yield also at Relaxed accesses and DEREFs? (tree restructuring)
    pub yield_relaxed: bool,
    pub last_free_seq: usize,
    pub uaf: u64,
    pub aborted: bool,
    /// single-threaded run: a held mutex at LOCK_PRE can never be released (leaked lock)
    pub seq_mode: bool,
}

pub type ReachFn = Box<dyn Fn() -> std::collections::HashSet<usize> + Send + Sync>;

pub struct Exec {
    pub m: Mutex<Inner>,
    pub cv: Condvar,
    /// addresses reachable from the map's roots right now (inspector), for the retire check
    pub reach: Mutex<Option<ReachFn>>,
}

thread_local! {
    static CTX: RefCell<Option<(Arc<Exec>, usize)>> = const { RefCell::new(None) };
    static SUPPRESS: Cell<bool> = const { Cell::new(false) };
}

/// Run `f` with hooks ignored on this thread (used by the inspector and by oracle reads).
pub fn suppressed<R>(f: impl FnOnce() -> R) -> R {
    let old = SUPPRESS.with(|s| s.replace(true));
    let r = f();
    SUPPRESS.with(|s| s.set(old));
    r
}

pub fn install_hook() {
    fv::set_hook(Some(hook));
}

pub fn kind_name(k: u32) -> &'static str {
    match k {
        fv::LOAD => "load",
        fv::STORE => "store",
        fv::SWAP => "swap",
        fv::CAS => "cas",
        fv::CLONE => "clone",
        fv::BOXED => "boxed",
        fv::DEREF => "deref",
        fv::INTO_BOX => "into_box",
        fv::RETIRE => "retire",
        fv::LOCK_PRE => "lock",
        fv::PARK_PRE => "park",
        fv::UNPARK_PRE => "unpark",
        fv::SPIN => "spin",
        fv::WORD => "word",
        fv::SITE => "site",
        _ => "?",
    }
}

fn type_tag(args: &[usize]) -> &'static str {
    if args.len() < 4 || args[2] == 0 {
        return "?";
    }
    // safety: the hook passes the pointer/length of a `&'static str` (type_name)
    let s = unsafe {
        std::str::from_utf8_unchecked(std::slice::from_raw_parts(args[2] as *const u8, args[3]))
    };
    if s.contains("BinEntry") {
        "bin"
    } else if s.contains("Table") {
        "table"
    } else if s.contains("Thread") {
        "thread"
    } else {
        "value"
    }
}

pub fn type_tag_pub(args: &[usize; 8]) -> &'static str {
    type_tag(&args[..])
}

fn hook(kind: u32, args: &[usize]) {
    if kind == fv::BOXED {
        alloc::expect_alloc(args[0], args[1]);
    }
    if SUPPRESS.with(|s| s.get()) {
        return;
    }
    let ctx = CTX.with(|c| c.borrow().clone());
    if let Some((exec, tid)) = ctx {
        exec.on_hook(tid, kind, args);
    }
}

pub fn attach(exec: &Arc<Exec>, tid: usize) {
    CTX.with(|c| *c.borrow_mut() = Some((exec.clone(), tid)));
    crate::kv::LTID.with(|t| t.set(tid as u32));
    let mut g = exec.m.lock().unwrap();
    g.thr[tid].os_id = Some(std::thread::current().id());
}

pub fn detach() {
    CTX.with(|c| *c.borrow_mut() = None);
}

fn mutex_locked(addr: usize) -> bool {
    // safety: `addr` was announced by LOCK_PRE as the address of a parking_lot::Mutex<()> inside
    // a flurry object; tracked objects are never unmapped while tracking is on.
    unsafe { &*(addr as *const parking_lot::Mutex<()>) }.is_locked()
}

impl Exec {
    pub fn new(nthreads: usize) -> Arc<Exec> {
        Arc::new(Exec {
            m: Mutex::new(Inner {
                thr: (0..nthreads).map(|_| Thr::new()).collect(),
                granted: None,
                progress: 0,
                trace: vec![],
                schedule: vec![],
                nsteps: 0,
                rec_steps: false,
                rec_mem: false,
                rec_sites: true,
                rec_alts: false,
                alts: vec![],
                free_run: false,
                yield_relaxed: true,
                last_free_seq: alloc::free_seq(),
                uaf: 0,
                aborted: false,
                seq_mode: false,
            }),
            cv: Condvar::new(),
            reach: Mutex::new(None),
        })
    }

    pub fn log(&self, v: Value) {
        self.m.lock().unwrap().trace.push(v);
    }

    /// Things that happened since the thread's previous hook: frees, lock releases, unparks.
    fn settle(g: &mut Inner, tid: usize) {
        // frees observed by the allocator
        let fr = alloc::freed_since(g.last_free_seq);
        for (seq, start, size) in fr {
            g.last_free_seq = g.last_free_seq.max(seq);
            if g.rec_mem {
                g.trace
                    .push(json!({"e": "free", "t": tid, "o": start, "size": size}));
            }
        }
        // mutexes this thread held and has released meanwhile
        let mut i = 0;
        while i < g.thr[tid].holds.len() {
            let a = g.thr[tid].holds[i];
            if !mutex_locked(a) {
                g.thr[tid].holds.remove(i);
                if g.rec_steps {
                    g.trace.push(json!({"e": "unlock", "t": tid, "a": a}));
                }
            } else {
                i += 1;
            }
        }
        // unparks issued in the previous step are effective now
        let pend = std::mem::take(&mut g.thr[tid].pending_unpark);
        for target in pend {
            if target < g.thr.len() {
                g.thr[target].token = true;
            }
        }
    }

    fn check_freed(g: &mut Inner, tid: usize, what: &str, addr: usize) {
        if addr == 0 {
            return;
        }
        if let Some((start, size, freed, _)) = alloc::lookup(addr) {
            if freed {
                g.uaf += 1;
                g.trace.push(json!({"e": "uaf", "t": tid, "how": what, "a": addr, "o": start, "size": size}));
            }
        }
    }

    pub fn on_hook(&self, tid: usize, kind: u32, args: &[usize]) {
        // is the object being retired still reachable from the map's roots? (all other threads
        // are parked at yield points, so the inspector's walk is consistent)
        let mut reachable_now = 0u8;
        if kind == fv::RETIRE {
            let rec = self.m.lock().unwrap().rec_mem;
            if rec {
                let f = self.reach.lock().unwrap();
                if let Some(f) = f.as_ref() {
                    let set = suppressed(|| f());
                    if set.contains(&args[0]) {
                        reachable_now = 1;
                    }
                }
            }
        }
        let mut g = self.m.lock().unwrap();
        if g.rec_steps {
            // the object announced by the previous BOXED hook has been allocated meanwhile
            let a = alloc::take_last_tracked();
            if a != 0 {
                let sz = alloc::lookup(a).map(|x| x.1).unwrap_or(0);
                g.trace.push(json!({"e": "alloc", "t": tid, "o": a, "sz": sz}));
            }
        }
        if g.aborted {
            // the run was abandoned (stuck): park this thread forever
            loop {
                g = self.cv.wait(g).unwrap();
            }
        }
        Self::settle(&mut g, tid);
        let mut a6 = [0usize; 8];
        for (i, a) in args.iter().take(8).enumerate() {
            a6[i] = *a;
        }
        g.thr[tid].last_kind = kind;
        g.thr[tid].last_args = a6;

        // memory-safety bookkeeping
        match kind {
            fv::DEREF | fv::INTO_BOX => Self::check_freed(&mut g, tid, kind_name(kind), args[0]),
            fv::LOAD | fv::STORE | fv::SWAP | fv::CAS | fv::CLONE => {
                Self::check_freed(&mut g, tid, kind_name(kind), args[0])
            }
            fv::WORD => Self::check_freed(&mut g, tid, "word", args[0]),
            fv::LOCK_PRE => Self::check_freed(&mut g, tid, "lock", args[0]),
            fv::RETIRE => {
                Self::check_freed(&mut g, tid, "retire", args[0]);
                if g.rec_mem {
                    g.trace.push(json!({"e": "retire", "t": tid, "o": args[0], "ty": type_tag(args), "wv": args[1], "reach": reachable_now}));
                }
            }
            _ => {}
        }
        if kind == fv::BOXED && g.rec_mem {
            g.trace
                .push(json!({"e": "boxed", "t": tid, "ty": type_tag(args), "size": args[0]}));
        }
        if kind == fv::SITE && g.rec_sites {
            g.trace.push(json!({"e": "site", "t": tid, "s": args[0], "a": args[1], "b": args[2], "c": args[3]}));
        }
        if kind == fv::DEREF && g.rec_steps {
            g.trace
                .push(json!({"e": "deref", "t": tid, "o": args[0], "ty": type_tag(args)}));
        }

        let relaxed = matches!(kind, fv::LOAD | fv::STORE | fv::SWAP | fv::CLONE) && args[1] == 0;
        let yielding = match kind {
            fv::LOAD | fv::STORE | fv::SWAP | fv::CAS => !relaxed || g.yield_relaxed,
            fv::CLONE => false,
            fv::WORD | fv::LOCK_PRE | fv::PARK_PRE | fv::UNPARK_PRE | fv::SPIN => true,
            crate::ops::HARNESS_YIELD => true,
            _ => false,
        };

        if kind == fv::UNPARK_PRE {
            // safety: the hook passes the address of the `Thread` handle about to be unparked
            let target_id = unsafe { &*(args[0] as *const std::thread::Thread) }.id();
            if let Some(target) = g.thr.iter().position(|t| t.os_id == Some(target_id)) {
                g.thr[tid].pending_unpark.push(target);
                a6[1] = target + 1;
                g.thr[tid].last_args = a6;
            }
        }

        if !yielding || g.free_run {
            if g.rec_steps && matches!(kind, fv::LOAD | fv::STORE | fv::SWAP | fv::CAS | fv::CLONE | fv::WORD | fv::LOCK_PRE | fv::PARK_PRE | fv::UNPARK_PRE)
            {
                let ev = Self::step_event(tid, kind, &a6);
                g.trace.push(ev);
            }
            if kind == fv::LOCK_PRE {
                if g.seq_mode && g.free_run && mutex_locked(args[0]) {
                    // nobody else exists who could release it: report instead of hanging
                    g.trace.push(json!({"e": "stuck", "t": tid, "why": "bin mutex is held and no other thread exists"}));
                    drop(g);
                    panic!("verif: leaked bin lock");
                }
                g.thr[tid].holds.push(args[0]);
                g.thr[tid].lock_events += 1;
            }
            return;
        }

        // ---- yield ----
        let wait = match kind {
            fv::LOCK_PRE => Wait::Lock(args[0]),
            fv::PARK_PRE => Wait::Park,
            fv::SPIN => Wait::Spin(g.progress - g.thr[tid].own_progress),
            _ => Wait::Ready,
        };
        match kind {
            fv::LOCK_PRE => g.thr[tid].lock_events += 1,
            fv::PARK_PRE => g.thr[tid].park_events += 1,
            fv::SPIN => g.thr[tid].spin_events += 1,
            _ => {}
        }
        g.thr[tid].st = St::Waiting;
        g.thr[tid].wait = wait;
        g.granted = None;
        self.cv.notify_all();
        loop {
            if g.aborted {
                loop {
                    g = self.cv.wait(g).unwrap();
                }
            }
            if g.granted == Some(tid) {
                break;
            }
            g = self.cv.wait(g).unwrap();
        }
        g.thr[tid].st = St::Running;
        g.thr[tid].steps += 1;
        g.nsteps += 1;
        // progress = a step that can change what a spinning thread is waiting for: writes, lock
        // acquisitions, unparks. Loads are not progress: two threads spinning on the same condition
        // would otherwise keep each other eligible and starve, under a priority strategy, the thread
        // they are both waiting for.
        let writes = match kind {
            fv::STORE | fv::SWAP | fv::CAS | fv::LOCK_PRE | fv::UNPARK_PRE => true,
            fv::WORD => args.get(2).copied().unwrap_or(0) != 1,
            _ => false,
        };
        if writes && !matches!(wait, Wait::Spin(_)) {
            g.progress += 1;
            g.thr[tid].own_progress += 1;
        }
        match wait {
            Wait::Lock(a) => {
                // whoever held it before has released it
                for o in 0..g.thr.len() {
                    if o != tid {
                        if let Some(p) = g.thr[o].holds.iter().position(|x| *x == a) {
                            g.thr[o].holds.remove(p);
                            if g.rec_steps {
                                g.trace.push(json!({"e": "unlock", "t": o, "a": a}));
                            }
                        }
                    }
                }
                g.thr[tid].holds.push(a);
            }
            Wait::Park => {
                g.thr[tid].token = false;
            }
            _ => {}
        }
        if g.rec_steps {
            let mut ev = Self::step_event(tid, kind, &a6);
            // position of this step in the schedule (1-based): specification -> code replay counts grants
            if let Some(o) = ev.as_object_mut() {
                o.insert("g".into(), json!(g.nsteps));
            }
            g.trace.push(ev);
        }
    }

    fn step_event(tid: usize, kind: u32, a: &[usize; 8]) -> Value {
        match kind {
            fv::LOAD | fv::CLONE => {
                // the value that will be read: nothing else runs before the access
                let cur = unsafe { *(a[0] as *const usize) };
                json!({"e": "step", "t": tid, "k": kind_name(kind), "a": a[0], "ord": a[1], "ty": type_tag(a), "cur": cur})
            }
            fv::STORE | fv::SWAP => {
                let cur = unsafe { *(a[0] as *const usize) };
                json!({"e": "step", "t": tid, "k": kind_name(kind), "a": a[0], "ord": a[1], "ty": type_tag(a), "new": a[4], "cur": cur})
            }
            fv::CAS => {
                let cur = unsafe { *(a[0] as *const usize) };
                json!({"e": "step", "t": tid, "k": "cas", "a": a[0], "ord": a[1] >> 8, "ordf": a[1] & 0xff, "ty": type_tag(a), "new": a[4], "exp": a[5], "cur": cur, "ok": cur == a[5]})
            }
            fv::WORD => {
                let cur: i64 = match a[1] {
                    fv::word::LOCK_STATE => unsafe { *(a[0] as *const i64) },
                    fv::word::RED => unsafe { *(a[0] as *const u8) as i64 },
                    _ => unsafe { *(a[0] as *const isize) as i64 },
                };
                let acc = match a[2] {
                    fv::access::LOAD => "load",
                    fv::access::STORE => "store",
                    fv::access::CAS => "cas",
                    _ => "add",
                };
                let w = match a[1] {
                    fv::word::SIZE_CTL => "sc",
                    fv::word::TRANSFER_INDEX => "ti",
                    fv::word::COUNT => "cnt",
                    fv::word::LOCK_STATE => "ls",
                    _ => "red",
                };
                json!({"e": "step", "t": tid, "k": "word", "w": w, "acc": acc, "a": a[0], "ord": a[3], "x": a[4] as isize as i64, "y": a[5] as isize as i64, "cur": cur, "ln": a[6],
                       "ok": a[2] != fv::access::CAS || cur == a[4] as isize as i64})
            }
            fv::LOCK_PRE => json!({"e": "step", "t": tid, "k": "lock", "a": a[0]}),
            fv::PARK_PRE => json!({"e": "step", "t": tid, "k": "park"}),
            fv::UNPARK_PRE => json!({"e": "step", "t": tid, "k": "unpark", "u": a[1] as i64 - 1}),
            fv::SPIN => json!({"e": "step", "t": tid, "k": "spin", "s": a[0]}),
            _ => json!({"e": "step", "t": tid, "k": kind_name(kind)}),
        }
    }

    pub fn finish(&self, tid: usize) {
        let mut g = self.m.lock().unwrap();
        Self::settle(&mut g, tid);
        g.thr[tid].st = St::Done;
        g.granted = None;
        self.cv.notify_all();
    }

    fn runnable(g: &Inner, t: usize) -> bool {
        if g.thr[t].st != St::Waiting {
            return false;
        }
        match g.thr[t].wait {
            Wait::Ready => true,
            Wait::Lock(a) => !mutex_locked(a),
            Wait::Park => g.thr[t].token,
            // a spinning thread stays runnable; `preferred` says whether anybody else has
            // made progress since it started to spin
            Wait::Spin(_) => true,
        }
    }

    fn preferred(g: &Inner, t: usize) -> bool {
        match g.thr[t].wait {
            Wait::Spin(seen) => g.progress - g.thr[t].own_progress > seen,
            _ => true,
        }
    }
}

// ---------------------------------------------------------------------------------------------
// strategies

pub enum Strategy {
    /// explicit list of thread ids; fall back to the lowest runnable thread
    /// (sticky: once the list is used up, stay on the thread that ran last while it is runnable)
    List { steps: Vec<u8>, pos: usize, drift: u64, sticky: bool, last: usize },
    Random(StdRng),
    /// PCT: priorities + `d` priority change points over an estimated length
    Pct { rng: StdRng, prio: Vec<i64>, change: Vec<u64>, low: i64 },
    /// round robin with a quantum
    RoundRobin { cur: usize, left: u32, quantum: u32 },
    /// random, but stay on the current thread with probability p/256 (long runs, few switches)
    Sticky { rng: StdRng, cur: usize, p: u32 },
}

impl Strategy {
    pub fn from_json(v: &Value, nthreads: usize) -> Strategy {
        let kind = v.get("kind").and_then(|k| k.as_str()).unwrap_or("random");
        let seed = v.get("seed").and_then(|s| s.as_u64()).unwrap_or(0);
        match kind {
            "list" => Strategy::List {
                steps: v["steps"]
                    .as_array()
                    .map(|a| a.iter().map(|x| x.as_u64().unwrap_or(0) as u8).collect())
                    .unwrap_or_default(),
                pos: 0,
                drift: 0,
                sticky: v.get("sticky").and_then(|s| s.as_bool()).unwrap_or(false),
                last: usize::MAX,
            },
            "pct" => {
                let mut rng = StdRng::seed_from_u64(seed);
                let d = v.get("d").and_then(|s| s.as_u64()).unwrap_or(2);
                let len = v.get("len").and_then(|s| s.as_u64()).unwrap_or(300).max(1);
                let mut prio: Vec<i64> = (0..nthreads as i64).map(|i| i + d as i64 + 1).collect();
                // shuffle
                for i in (1..prio.len()).rev() {
                    let j = rng.gen_range(0..=i);
                    prio.swap(i, j);
                }
                let change = (0..d).map(|_| rng.gen_range(1..=len)).collect();
                Strategy::Pct {
                    rng,
                    prio,
                    change,
                    low: d as i64,
                }
            }
            "rr" => Strategy::RoundRobin {
                cur: 0,
                left: 0,
                quantum: v.get("q").and_then(|s| s.as_u64()).unwrap_or(1) as u32,
            },
            "sticky" => Strategy::Sticky {
                rng: StdRng::seed_from_u64(seed),
                cur: 0,
                p: v.get("p").and_then(|s| s.as_u64()).unwrap_or(230) as u32,
            },
            _ => Strategy::Random(StdRng::seed_from_u64(seed)),
        }
    }

    fn pick(&mut self, runnable: &[usize], nsteps: u64) -> usize {
        match self {
            Strategy::List { steps, pos, drift, sticky, last } => {
                if *pos < steps.len() {
                    let want = steps[*pos] as usize;
                    *pos += 1;
                    if runnable.contains(&want) {
                        *last = want;
                        return want;
                    }
                    *drift += 1;
                }
                if *sticky && runnable.contains(last) {
                    return *last;
                }
                *last = runnable[0];
                runnable[0]
            }
            Strategy::Random(rng) => runnable[rng.gen_range(0..runnable.len())],
            Strategy::Pct {
                prio, change, low, ..
            } => {
                let mut best = runnable[0];
                for &t in runnable {
                    if prio[t] > prio[best] {
                        best = t;
                    }
                }
                if change.contains(&(nsteps + 1)) {
                    prio[best] = *low;
                    *low -= 1;
                }
                best
            }
            Strategy::RoundRobin { cur, left, quantum } => {
                if *left > 0 && runnable.contains(cur) {
                    *left -= 1;
                    return *cur;
                }
                let n = runnable.iter().copied().max().unwrap() + 1;
                for k in 1..=n {
                    let c = (*cur + k) % n;
                    if runnable.contains(&c) {
                        *cur = c;
                        *left = quantum.saturating_sub(1);
                        return c;
                    }
                }
                runnable[0]
            }
            Strategy::Sticky { rng, cur, p } => {
                if runnable.contains(cur) && rng.gen_range(0..256) < *p {
                    return *cur;
                }
                *cur = runnable[rng.gen_range(0..runnable.len())];
                *cur
            }
        }
    }

    /// the thread an explicit list names next, if any
    pub fn wanted(&self) -> Option<usize> {
        match self {
            Strategy::List { steps, pos, .. } if *pos < steps.len() => Some(steps[*pos] as usize),
            _ => None,
        }
    }

    pub fn advance(&mut self) {
        if let Strategy::List { steps, pos, last, .. } = self {
            *last = steps[*pos] as usize;
            *pos += 1;
        }
    }

    pub fn drift(&self) -> u64 {
        match self {
            Strategy::List { drift, .. } => *drift,
            _ => 0,
        }
    }
}

#[derive(Debug, PartialEq, Clone, Copy)]
pub enum Outcome {
    Done,
    Stuck,
    Budget,
}

/// A predicate on the controller side: called before each grant with the candidate thread's
/// pending event; used by scripted schedules and the probe driver.
pub struct Pending {
    pub kind: u32,
    pub args: [usize; 8],
    pub wait: Wait,
    pub steps: u64,
}

impl Exec {
    /// Wait until no thread is running; return the set of runnable threads and whether all are done.
    pub fn settle_wait(&self) -> (Vec<usize>, bool) {
        let mut g = self.m.lock().unwrap();
        loop {
            if g.granted.is_none() && g.thr.iter().all(|t| t.st != St::Running) {
                break;
            }
            g = self.cv.wait(g).unwrap();
        }
        let all_done = g.thr.iter().all(|t| t.st == St::Done);
        let all: Vec<usize> = (0..g.thr.len()).filter(|&t| Self::runnable(&g, t)).collect();
        // threads spinning without anybody else having moved yield to the others
        let pref: Vec<usize> = all.iter().copied().filter(|&t| Self::preferred(&g, t)).collect();
        (if pref.is_empty() { all } else { pref }, all_done)
    }

    pub fn pending(&self, t: usize) -> Pending {
        let g = self.m.lock().unwrap();
        Pending {
            kind: g.thr[t].last_kind,
            args: g.thr[t].last_args,
            wait: g.thr[t].wait,
            steps: g.thr[t].steps,
        }
    }

    pub fn grant(&self, t: usize) {
        let mut g = self.m.lock().unwrap();
        g.granted = Some(t);
        if g.schedule.len() < 200_000 {
            g.schedule.push(t as u8);
        }
        self.cv.notify_all();
    }

    pub fn abort(&self) {
        let mut g = self.m.lock().unwrap();
        g.aborted = true;
    }

    pub fn is_done(&self, t: usize) -> bool {
        self.m.lock().unwrap().thr[t].st == St::Done
    }

    pub fn steps_of(&self, t: usize) -> u64 {
        self.m.lock().unwrap().thr[t].steps
    }

    /// Run all threads under the strategy until done / stuck / out of budget.
    pub fn run(&self, strat: &mut Strategy, budget: u64) -> Outcome {
        loop {
            let (runnable, all_done) = self.settle_wait();
            if all_done {
                return Outcome::Done;
            }
            if runnable.is_empty() {
                self.describe_stuck();
                return Outcome::Stuck;
            }
            let n = self.m.lock().unwrap().nsteps;
            if n >= budget {
                return Outcome::Budget;
            }
            // an explicit list may name a thread that is spinning without anybody having moved (specification -> code
            // replay follows the specification's order exactly); recorded schedules never do
            if let Some(want) = strat.wanted() {
                if !runnable.contains(&want) && self.runnable_any(want) {
                    {
                        let mut g = self.m.lock().unwrap();
                        if g.rec_alts && g.alts.len() < 100_000 {
                            g.alts.push(1 << want);
                        }
                    }
                    strat.advance();
                    self.grant(want);
                    continue;
                }
            }
            let t = strat.pick(&runnable, n);
            {
                let mut g = self.m.lock().unwrap();
                if g.rec_alts && g.alts.len() < 100_000 {
                    let mut mask = 0u32;
                    for &r in &runnable {
                        mask |= 1 << r;
                    }
                    g.alts.push(mask);
                }
            }
            self.grant(t);
        }
    }

    /// runnable, whether or not it is a spinner nobody has moved for
    fn runnable_any(&self, t: usize) -> bool {
        let g = self.m.lock().unwrap();
        t < g.thr.len() && Self::runnable(&g, t)
    }

    /// Run all threads except `skip` under the strategy for at most `steps` steps.
    pub fn run_excluding(&self, strat: &mut Strategy, steps: u64, skip: usize) -> u64 {
        let mut n = 0;
        while n < steps {
            let (runnable, all_done) = self.settle_wait();
            if all_done {
                break;
            }
            let r: Vec<usize> = runnable.into_iter().filter(|t| *t != skip).collect();
            if r.is_empty() {
                break;
            }
            let ns = self.m.lock().unwrap().nsteps;
            let t = strat.pick(&r, ns);
            self.grant(t);
            n += 1;
        }
        self.settle_wait();
        n
    }

    /// (steps, lock events, park events, spin events) of thread t
    pub fn counters(&self, t: usize) -> (u64, u64, u64, u64) {
        let g = self.m.lock().unwrap();
        (g.thr[t].steps, g.thr[t].lock_events, g.thr[t].park_events, g.thr[t].spin_events)
    }

    /// Run only thread `t` until it is done, blocked, or `max` steps were taken. Returns steps taken.
    pub fn run_solo(&self, t: usize, max: u64) -> u64 {
        let mut n = 0;
        while n < max {
            let (runnable, _) = self.settle_wait();
            if !runnable.contains(&t) {
                break;
            }
            self.grant(t);
            n += 1;
        }
        self.settle_wait();
        n
    }

    fn describe_stuck(&self) {
        let mut g = self.m.lock().unwrap();
        let desc: Vec<Value> = g
            .thr
            .iter()
            .enumerate()
            .map(|(i, t)| {
                json!({"t": i, "st": format!("{:?}", t.st), "wait": format!("{:?}", t.wait), "holds": t.holds.len()})
            })
            .collect();
        g.trace.push(json!({"e": "stuck", "threads": desc}));
    }
}
