//! The operation alphabet and its execution against the real map / set through the
//! guard-passing and the pinned-reference facades.

use std::panic::{catch_unwind, AssertUnwindSafe};
use std::sync::Arc;

use flurry::{Guard, HashMap, HashMapRef, HashSet, HashSetRef};
use serde::Deserialize;
use serde_json::{json, Value};

use crate::kv::{fresh_uid, is_alive, Key, Val, H};
use crate::sched::Exec;

#[derive(Deserialize, Clone, Debug, Default)]
pub struct Op {
    pub op: String,
    #[serde(default)]
    pub k: u32,
    #[serde(default)]
    pub tag: u32,
    /// payload for inserted values
    #[serde(default)]
    pub pl: i64,
    /// closure / predicate name
    #[serde(default)]
    pub f: String,
    #[serde(default)]
    pub n: usize,
    /// key list (extend, set relations, predicates)
    #[serde(default)]
    pub keys: Vec<u32>,
    /// "own" (default) | "foreign"
    #[serde(default)]
    pub guard: String,
    /// panic at the i-th callback invocation (1-based); 0 = never
    #[serde(default)]
    pub panic_at: u32,
}

pub struct Logger {
    pub exec: Arc<Exec>,
    pub tid: usize,
}

impl Logger {
    pub fn log(&self, v: Value) {
        self.exec.log(v);
    }
}

pub const HARNESS_YIELD: u32 = 1000;

pub enum MG<'m> {
    Guard(Guard<'m>),
    Pin(HashMapRef<'m, Key, Val, H>),
}

pub enum SG<'m> {
    Guard(Guard<'m>),
    Pin(HashSetRef<'m, Key, H>),
}

/// A reference handed out by the map, remembered until its guard is released (C03 canary).
pub struct Held {
    ptr: *const Val,
    inst: u64,
    uid: u64,
}

fn pred_verdict(f: &str, keys: &[u32], n: usize, k: &Key, v: i64) -> bool {
    match f {
        "all" => true,
        "none" => false,
        "even" => k.id % 2 == 0,
        "odd" => k.id % 2 == 1,
        "keep" => keys.contains(&k.id),
        "drop" => !keys.contains(&k.id),
        "plt" => v < n as i64,
        _ => true,
    }
}

fn res() -> serde_json::Map<String, Value> {
    serde_json::Map::new()
}

fn items_json(mut items: Vec<(u32, u32, u64)>) -> Value {
    items.sort();
    Value::Array(items.into_iter().map(|(k, t, v)| json!([k, t, v])).collect())
}

pub struct MapSession<'m> {
    pub map: &'m HashMap<Key, Val, H>,
    pub g: MG<'m>,
    pub held: Vec<Held>,
    pub foreign: &'m seize::Collector,
}

impl<'m> MapSession<'m> {
    pub fn new(map: &'m HashMap<Key, Val, H>, pin: bool, foreign: &'m seize::Collector) -> Self {
        let g = if pin {
            MG::Pin(map.pin())
        } else {
            MG::Guard(map.guard())
        };
        MapSession {
            map,
            g,
            held: vec![],
            foreign,
        }
    }

    fn hold(&mut self, v: &Val) {
        if self.held.len() < 10_000 {
            self.held.push(Held {
                ptr: v as *const Val,
                inst: v.inst,
                uid: v.uid,
            });
        }
    }

    /// Re-read every reference handed out under this session's guard; returns the number of
    /// references that are no longer valid (dropped instance or changed content).
    pub fn check_held(&mut self) -> (usize, usize) {
        let mut bad = 0;
        for h in &self.held {
            // safety: value blocks are tracked by the quarantine allocator and never unmapped
            // while tracking is on, so the read cannot fault even if the value was freed.
            let uid_now = unsafe { (*h.ptr).uid };
            if !is_alive(h.inst) || uid_now != h.uid {
                bad += 1;
            }
        }
        let n = self.held.len();
        self.held.clear();
        (n, bad)
    }

    pub fn run(&mut self, op: &Op, i: usize, lg: &Logger) -> Value {
        let foreign_guard = if op.guard == "foreign" {
            Some(self.foreign.enter())
        } else {
            None
        };
        let r = catch_unwind(AssertUnwindSafe(|| self.run_inner(op, i, lg, foreign_guard.as_ref())));
        match r {
            Ok(v) => v,
            Err(_) => json!({"panic": 1}),
        }
    }

    fn run_inner(&mut self, op: &Op, i: usize, lg: &Logger, fg: Option<&Guard<'_>>) -> Value {
        let map = self.map;
        let mut out = res();
        let t = lg.tid;
        // SAFETY of the lifetime games below: references are converted to numbers (or to raw
        // pointers for the canary) before the guard can be released.
        // a foreign guard reaches the map either directly (guard-passing API) or through a
        // reference wrapper made by `with_guard`
        let wg = fg.map(|g| map.with_guard(g));
        macro_rules! with_guard {
            ($g:ident, $body:expr, $r:ident, $pbody:expr) => {
                match (&self.g, fg) {
                    (MG::Pin(_), Some(_)) => {
                        let $r = wg.as_ref().unwrap();
                        $pbody
                    }
                    (_, Some($g)) => $body,
                    (MG::Guard(gg), None) => {
                        let $g = gg;
                        $body
                    }
                    (MG::Pin($r), None) => $pbody,
                }
            };
        }
        match op.op.as_str() {
            "get" => {
                let k = Key::probe(op.k);
                let v: Option<&Val> = with_guard!(g, map.get(&k, g), r, r.get(&k));
                let v = v.map(|v| (v as *const Val, v.uid));
                out.insert("ok".into(), json!(v.is_some() as u8));
                out.insert("v".into(), json!(v.map(|x| x.1).unwrap_or(0)));
                if let Some((p, _)) = v {
                    self.hold(unsafe { &*p });
                }
            }
            "get_key_value" => {
                let k = Key::probe(op.k);
                let v: Option<(&Key, &Val)> =
                    with_guard!(g, map.get_key_value(&k, g), r, r.get_key_value(&k));
                let v = v.map(|(k, v)| (k.tag, v as *const Val, v.uid));
                out.insert("ok".into(), json!(v.is_some() as u8));
                out.insert("v".into(), json!(v.map(|x| x.2).unwrap_or(0)));
                out.insert("tag".into(), json!(v.map(|x| x.0).unwrap_or(0)));
                if let Some((_, p, _)) = v {
                    self.hold(unsafe { &*p });
                }
            }
            "contains_key" => {
                let k = Key::probe(op.k);
                let b = with_guard!(g, map.contains_key(&k, g), r, r.contains_key(&k));
                out.insert("ok".into(), json!(b as u8));
            }
            "insert" => {
                let uid = op.n as u64;
                let v: Option<&Val> = with_guard!(
                    g,
                    map.insert(Key::new(op.k, op.tag), Val::new(uid, op.pl), g),
                    r,
                    r.insert(Key::new(op.k, op.tag), Val::new(uid, op.pl))
                );
                let v = v.map(|v| (v as *const Val, v.uid));
                out.insert("ok".into(), json!(v.is_some() as u8));
                out.insert("v".into(), json!(v.map(|x| x.1).unwrap_or(0)));
                if let Some((p, _)) = v {
                    self.hold(unsafe { &*p });
                }
            }
            "try_insert" => {
                let uid = op.n as u64;
                let v = with_guard!(
                    g,
                    map.try_insert(Key::new(op.k, op.tag), Val::new(uid, op.pl), g),
                    r,
                    r.try_insert(Key::new(op.k, op.tag), Val::new(uid, op.pl))
                );
                match v {
                    Ok(v) => {
                        out.insert("ok".into(), json!(1));
                        out.insert("v".into(), json!(v.uid));
                        let p = v as *const Val;
                        self.hold(unsafe { &*p });
                    }
                    Err(e) => {
                        out.insert("ok".into(), json!(0));
                        out.insert("v".into(), json!(e.current.uid));
                        out.insert("ni".into(), json!(e.not_inserted.uid));
                        let p = e.current as *const Val;
                        self.hold(unsafe { &*p });
                    }
                }
            }
            "remove" => {
                let k = Key::probe(op.k);
                let v: Option<&Val> = with_guard!(g, map.remove(&k, g), r, r.remove(&k));
                let v = v.map(|v| (v as *const Val, v.uid));
                out.insert("ok".into(), json!(v.is_some() as u8));
                out.insert("v".into(), json!(v.map(|x| x.1).unwrap_or(0)));
                if let Some((p, _)) = v {
                    self.hold(unsafe { &*p });
                }
            }
            "remove_entry" => {
                let k = Key::probe(op.k);
                let v: Option<(&Key, &Val)> =
                    with_guard!(g, map.remove_entry(&k, g), r, r.remove_entry(&k));
                let v = v.map(|(k, v)| (k.tag, v as *const Val, v.uid));
                out.insert("ok".into(), json!(v.is_some() as u8));
                out.insert("v".into(), json!(v.map(|x| x.2).unwrap_or(0)));
                out.insert("tag".into(), json!(v.map(|x| x.0).unwrap_or(0)));
                if let Some((_, p, _)) = v {
                    self.hold(unsafe { &*p });
                }
            }
            "compute" => {
                let k = Key::probe(op.k);
                let newuid = op.n as u64;
                let mut seen: Vec<u64> = vec![];
                let mut seen_tag: Vec<u32> = vec![];
                let f = op.f.clone();
                let pl = op.pl;
                let panic_at = op.panic_at;
                let v: Option<&Val> = {
                    let clo = |kk: &Key, vv: &Val| -> Option<Val> {
                        seen.push(vv.uid);
                        seen_tag.push(kk.tag);
                        lg.log(json!({"e": "cb", "t": t, "i": i, "k": kk.id, "seen": vv.uid}));
                        if panic_at == 1 {
                            panic!("injected");
                        }
                        match f.as_str() {
                            "none" => None,
                            "inc" => Some(Val::new(newuid, vv.payload + 1)),
                            _ => Some(Val::new(newuid, pl)),
                        }
                    };
                    with_guard!(
                        g,
                        map.compute_if_present(&k, clo, g),
                        r,
                        r.compute_if_present(&k, clo)
                    )
                };
                let v = v.map(|v| (v as *const Val, v.uid, v.payload));
                out.insert("ok".into(), json!(v.is_some() as u8));
                out.insert("v".into(), json!(v.map(|x| x.1).unwrap_or(0)));
                out.insert("pl".into(), json!(v.map(|x| x.2).unwrap_or(0)));
                out.insert("seen".into(), json!(seen));
                if let Some((p, _, _)) = v {
                    self.hold(unsafe { &*p });
                }
            }
            "len" => {
                let (n, e) = match (&self.g, wg.as_ref()) {
                    (MG::Pin(_), Some(r)) => (r.len(), r.is_empty()),
                    (MG::Pin(r), None) => (r.len(), r.is_empty()),
                    _ => (map.len(), map.is_empty()),
                };
                out.insert("n".into(), json!(n));
                out.insert("empty".into(), json!(e as u8));
            }
            "clear" => {
                with_guard!(g, map.clear(g), r, r.clear());
            }
            "reserve" => {
                with_guard!(g, map.reserve(op.n, g), r, r.reserve(op.n));
            }
            "iter" | "keys" | "values" => {
                lg.log(json!({"e": "itnew", "t": t, "i": i}));
                let mut items: Vec<(u32, u32, u64)> = vec![];
                let mut count = 0u32;
                let mut cb = |k: Option<&Key>, v: Option<&Val>| {
                    count += 1;
                    lg.log(json!({"e": "yield", "t": t, "i": i, "k": k.map(|k| k.id).unwrap_or(0),
                        "tag": k.map(|k| k.tag).unwrap_or(0), "v": v.map(|v| v.uid).unwrap_or(0)}));
                    items.push((
                        k.map(|k| k.id).unwrap_or(0),
                        k.map(|k| k.tag).unwrap_or(0),
                        v.map(|v| v.uid).unwrap_or(0),
                    ));
                    if op.panic_at != 0 && count == op.panic_at {
                        panic!("injected");
                    }
                };
                match op.op.as_str() {
                    "iter" => with_guard!(
                        g,
                        for (k, v) in map.iter(g) {
                            cb(Some(k), Some(v));
                        },
                        r,
                        for (k, v) in r.iter() {
                            cb(Some(k), Some(v));
                        }
                    ),
                    "keys" => with_guard!(
                        g,
                        for k in map.keys(g) {
                            cb(Some(k), None);
                        },
                        r,
                        for k in r.keys() {
                            cb(Some(k), None);
                        }
                    ),
                    _ => with_guard!(
                        g,
                        for v in map.values(g) {
                            cb(None, Some(v));
                        },
                        r,
                        for v in r.values() {
                            cb(None, Some(v));
                        }
                    ),
                }
                lg.log(json!({"e": "itend", "t": t, "i": i}));
                out.insert("items".into(), items_json(items));
            }
            "retain" | "retain_force" => {
                let mut count = 0u32;
                let pred = |k: &Key, v: &Val| -> bool {
                    count += 1;
                    let verdict = pred_verdict(&op.f, &op.keys, op.n, k, v.payload);
                    lg.log(json!({"e": "pred", "t": t, "i": i, "k": k.id, "v": v.uid, "keep": verdict as u8}));
                    if op.panic_at != 0 && count == op.panic_at {
                        panic!("injected");
                    }
                    verdict
                };
                if op.op == "retain" {
                    with_guard!(g, map.retain(pred, g), r, r.retain(pred));
                } else {
                    with_guard!(g, map.retain_force(pred, g), r, r.retain_force(pred));
                }
            }
            "extend" => {
                // uids n, n+1, ... for the items in order
                let base = op.n as u64;
                let items: Vec<(Key, Val)> = op
                    .keys
                    .iter()
                    .enumerate()
                    .map(|(j, k)| (Key::new(*k, op.tag), Val::new(base + j as u64, op.pl)))
                    .collect();
                let mut m = map;
                m.extend(items);
            }
            "clone_eq" => {
                // clone the map, compare both ways, report the clone's contents
                let c = map.clone();
                let eq1 = *map == c;
                let eq2 = c == *map;
                let g = c.guard();
                let mut items: Vec<(u32, u32, u64)> =
                    c.iter(&g).map(|(k, v)| (k.id, k.tag, v.uid)).collect();
                items.sort();
                out.insert("ok".into(), json!((eq1 && eq2) as u8));
                out.insert("n".into(), json!(c.len()));
                out.insert("items".into(), items_json(items));
                drop(g);
            }
            "eq_other" => {
                // build another map from the key list (payload op.pl) and compare
                // building the other operand is not part of the comparison: hooks are ignored
                let other: HashMap<Key, Val, H> = crate::sched::suppressed(|| {
                    let other = HashMap::with_hasher(H::default());
                    {
                        let g = other.guard();
                        for k in &op.keys {
                            other.insert(Key::new(*k, 0), Val::new(fresh_uid(), op.pl), &g);
                        }
                    }
                    other
                });
                // every equality facade must give the same answer: map == map (both ways), HashMapRef == HashMap,
                // HashMap == HashMapRef, HashMapRef == HashMapRef; a disagreement is reported as 2
                let rs = [*map == other, other == *map, map.pin() == other, *map == other.pin(), other.pin() == *map, map.pin() == other.pin()];
                let eq = if rs.iter().all(|x| *x == rs[0]) { rs[0] as u8 } else { 2 };
                out.insert("ok".into(), json!(eq));
            }
            "debug" => {
                let s = match (&self.g, wg.as_ref()) {
                    (MG::Pin(_), Some(r)) => format!("{:?}", r),
                    (MG::Pin(r), None) => format!("{:?}", r),
                    _ => format!("{:?}", map),
                };
                // entries "Kid.tag: Vpayload"
                let mut ents: Vec<String> = s
                    .trim_start_matches('{')
                    .trim_end_matches('}')
                    .split(", ")
                    .filter(|x| !x.is_empty())
                    .map(|x| x.to_string())
                    .collect();
                ents.sort();
                out.insert("dbg".into(), json!(ents));
            }
            "index" => {
                let k = Key::probe(op.k);
                let uid = match wg.as_ref() {
                    Some(r) => r[&k].uid,
                    None => self.map.pin()[&k].uid,
                };
                out.insert("ok".into(), json!(1));
                out.insert("v".into(), json!(uid));
            }
            "probe_cmp" => {
                // number of key comparisons (Eq + Ord) a lookup of each listed key makes
                let mut res: Vec<Value> = vec![];
                for k in &op.keys {
                    let key = Key::probe(*k);
                    crate::kv::cmp_count_reset();
                    let found = with_guard!(g, map.get(&key, g).is_some(), r, r.get(&key).is_some());
                    let c = crate::kv::cmp_count();
                    let b = with_guard!(g, map.contains_key(&key, g), r, r.contains_key(&key));
                    res.push(json!([k, c, (found && b) as u8]));
                }
                out.insert("cmps".into(), json!(res));
            }
            "yield" => {}
            other => {
                out.insert("unknown".into(), json!(other));
            }
        }
        Value::Object(out)
    }
}

pub struct SetSession<'m> {
    pub set: &'m HashSet<Key, H>,
    pub g: SG<'m>,
    pub foreign: &'m seize::Collector,
}

impl<'m> SetSession<'m> {
    pub fn new(set: &'m HashSet<Key, H>, pin: bool, foreign: &'m seize::Collector) -> Self {
        let g = if pin {
            SG::Pin(set.pin())
        } else {
            SG::Guard(set.guard())
        };
        SetSession { set, g, foreign }
    }

    pub fn run(&mut self, op: &Op, i: usize, lg: &Logger) -> Value {
        let foreign_guard = if op.guard == "foreign" {
            Some(self.foreign.enter())
        } else {
            None
        };
        let r = catch_unwind(AssertUnwindSafe(|| self.run_inner(op, i, lg, foreign_guard.as_ref())));
        match r {
            Ok(v) => v,
            Err(_) => json!({"panic": 1}),
        }
    }

    fn run_inner(&mut self, op: &Op, i: usize, lg: &Logger, fg: Option<&Guard<'_>>) -> Value {
        let set = self.set;
        let mut out = res();
        let t = lg.tid;
        let wg = fg.map(|g| set.with_guard(g));
        macro_rules! with_guard {
            ($g:ident, $body:expr, $r:ident, $pbody:expr) => {
                match (&self.g, fg) {
                    (SG::Pin(_), Some(_)) => {
                        let $r = wg.as_ref().unwrap();
                        $pbody
                    }
                    (_, Some($g)) => $body,
                    (SG::Guard(gg), None) => {
                        let $g = gg;
                        $body
                    }
                    (SG::Pin($r), None) => $pbody,
                }
            };
        }
        let other_set = |keys: &[u32]| -> HashSet<Key, H> {
            crate::sched::suppressed(|| {
                let o: HashSet<Key, H> = HashSet::with_hasher(H::default());
                {
                    let g = o.guard();
                    for k in keys {
                        o.insert(Key::new(*k, 0), &g);
                    }
                }
                o
            })
        };
        match op.op.as_str() {
            "contains_key" | "contains" => {
                let k = Key::probe(op.k);
                let b = with_guard!(g, set.contains(&k, g), r, r.contains(&k));
                out.insert("ok".into(), json!(b as u8));
            }
            "get" | "get_key_value" => {
                let k = Key::probe(op.k);
                let v: Option<&Key> = with_guard!(g, set.get(&k, g), r, r.get(&k));
                out.insert("ok".into(), json!(v.is_some() as u8));
                out.insert("tag".into(), json!(v.map(|k| k.tag).unwrap_or(0)));
                out.insert("v".into(), json!(v.is_some() as u8));
            }
            "insert" | "try_insert" => {
                let b = with_guard!(
                    g,
                    set.insert(Key::new(op.k, op.tag), g),
                    r,
                    r.insert(Key::new(op.k, op.tag))
                );
                // set.insert returns true if the value was newly inserted
                out.insert("ok".into(), json!(b as u8));
            }
            "remove" => {
                let k = Key::probe(op.k);
                let b = with_guard!(g, set.remove(&k, g), r, r.remove(&k));
                out.insert("ok".into(), json!(b as u8));
            }
            "take" | "remove_entry" => {
                let k = Key::probe(op.k);
                let v: Option<&Key> = with_guard!(g, set.take(&k, g), r, r.take(&k));
                out.insert("ok".into(), json!(v.is_some() as u8));
                out.insert("tag".into(), json!(v.map(|k| k.tag).unwrap_or(0)));
            }
            "len" => {
                let (n, e) = match (&self.g, wg.as_ref()) {
                    (SG::Pin(_), Some(r)) => (r.len(), r.is_empty()),
                    (SG::Pin(r), None) => (r.len(), r.is_empty()),
                    _ => (set.len(), set.is_empty()),
                };
                out.insert("n".into(), json!(n));
                out.insert("empty".into(), json!(e as u8));
            }
            "clear" => {
                with_guard!(g, set.clear(g), r, r.clear());
            }
            "reserve" => {
                with_guard!(g, set.reserve(op.n, g), r, r.reserve(op.n));
            }
            "iter" | "keys" => {
                lg.log(json!({"e": "itnew", "t": t, "i": i}));
                let mut items: Vec<(u32, u32, u64)> = vec![];
                let mut count = 0u32;
                let mut cb = |k: &Key| {
                    count += 1;
                    lg.log(json!({"e": "yield", "t": t, "i": i, "k": k.id, "tag": k.tag, "v": 1}));
                    items.push((k.id, k.tag, 1));
                    if op.panic_at != 0 && count == op.panic_at {
                        panic!("injected");
                    }
                };
                with_guard!(
                    g,
                    for k in set.iter(g) {
                        cb(k);
                    },
                    r,
                    for k in r.iter() {
                        cb(k);
                    }
                );
                lg.log(json!({"e": "itend", "t": t, "i": i}));
                out.insert("items".into(), items_json(items));
            }
            "retain" => {
                let mut count = 0u32;
                let pred = |k: &Key| -> bool {
                    count += 1;
                    let verdict = pred_verdict(&op.f, &op.keys, op.n, k, 0);
                    lg.log(json!({"e": "pred", "t": t, "i": i, "k": k.id, "v": 1, "keep": verdict as u8}));
                    if op.panic_at != 0 && count == op.panic_at {
                        panic!("injected");
                    }
                    verdict
                };
                with_guard!(g, set.retain(pred, g), r, r.retain(pred));
            }
            "extend" => {
                let items: Vec<Key> = op.keys.iter().map(|k| Key::new(*k, op.tag)).collect();
                let mut s = set;
                s.extend(items);
            }
            "is_disjoint" | "is_subset" | "is_superset" => {
                let o = other_set(&op.keys);
                let b = match (&self.g, wg.as_ref()) {
                    (SG::Pin(_), Some(r)) => {
                        let or = o.pin();
                        match op.op.as_str() {
                            "is_disjoint" => r.is_disjoint(&or),
                            "is_subset" => r.is_subset(&or),
                            _ => r.is_superset(&or),
                        }
                    }
                    (SG::Pin(r), None) => {
                        let or = o.pin();
                        match op.op.as_str() {
                            "is_disjoint" => r.is_disjoint(&or),
                            "is_subset" => r.is_subset(&or),
                            _ => r.is_superset(&or),
                        }
                    }
                    (SG::Guard(g), _) => {
                        let og = o.guard();
                        let g = fg.unwrap_or(g);
                        match op.op.as_str() {
                            "is_disjoint" => set.is_disjoint(&o, g, &og),
                            "is_subset" => set.is_subset(&o, g, &og),
                            _ => set.is_superset(&o, g, &og),
                        }
                    }
                };
                out.insert("ok".into(), json!(b as u8));
            }
            "clone_eq" => {
                let c = set.clone();
                let eq1 = *set == c;
                let eq2 = c == *set;
                let g = c.guard();
                let items: Vec<(u32, u32, u64)> = c.iter(&g).map(|k| (k.id, k.tag, 1)).collect();
                out.insert("ok".into(), json!((eq1 && eq2) as u8));
                out.insert("n".into(), json!(c.len()));
                out.insert("items".into(), items_json(items));
                drop(g);
            }
            "eq_other" => {
                let o = other_set(&op.keys);
                let rs = [*set == o, o == *set, set.pin() == o, *set == o.pin(), o.pin() == *set, set.pin() == o.pin()];
                let eq = if rs.iter().all(|x| *x == rs[0]) { rs[0] as u8 } else { 2 };
                out.insert("ok".into(), json!(eq));
            }
            "debug" => {
                let s = match (&self.g, wg.as_ref()) {
                    (SG::Pin(_), Some(r)) => format!("{:?}", r),
                    (SG::Pin(r), None) => format!("{:?}", r),
                    _ => format!("{:?}", set),
                };
                let mut ents: Vec<String> = s
                    .trim_start_matches('{')
                    .trim_end_matches('}')
                    .split(", ")
                    .filter(|x| !x.is_empty())
                    .map(|x| x.to_string())
                    .collect();
                ents.sort();
                out.insert("dbg".into(), json!(ents));
            }
            "yield" => {}
            other => {
                out.insert("unknown".into(), json!(other));
            }
        }
        Value::Object(out)
    }
}
