//! Global allocator wrapper: tracks the objects flurry allocates through `Shared::boxed`
//! (announced by the BOXED pre-hook) and, while tracking is on, *quarantines* them when they are
//! freed instead of returning the memory: the block stays mapped (filled with 0xDE), so
//!   * an access the hooks announce to an address inside a quarantined block is a genuine
//!     use-after-free (the allocator can never have re-issued the address), and
//!   * a checksum taken at free time detects writes through stale references at the end of the run.

use std::alloc::{GlobalAlloc, Layout, System};
use std::cell::Cell;
use std::sync::atomic::{AtomicBool, AtomicUsize, Ordering};

pub struct QAlloc;

const CAP: usize = 1 << 16;

#[derive(Clone, Copy)]
struct Ent {
    start: usize,
    size: usize,
    align: usize,
    sum: u64,
    freed: bool,
    seq: usize,
}

const EMPTY: Ent = Ent {
    start: 0,
    size: 0,
    align: 0,
    sum: 0,
    freed: false,
    seq: 0,
};

struct Tab {
    n: usize,
    ents: [Ent; CAP],
}

static LOCK: AtomicBool = AtomicBool::new(false);
static mut TAB: Tab = Tab {
    n: 0,
    ents: [EMPTY; CAP],
};
static TRACK: AtomicBool = AtomicBool::new(false);
static OVERFLOW: AtomicBool = AtomicBool::new(false);
static FREE_SEQ: AtomicUsize = AtomicUsize::new(0);
static DOUBLE_FREE: AtomicUsize = AtomicUsize::new(0);

pub fn double_frees() -> usize {
    DOUBLE_FREE.swap(0, Ordering::SeqCst)
}

thread_local! {
    static EXPECT: Cell<(usize, usize)> = const { Cell::new((0, 0)) };
    /// address of the last block this thread allocated for an announced flurry object
    static LAST_TRACKED: Cell<usize> = const { Cell::new(0) };
}

/// Address of the flurry object this thread allocated since the last call (0 = none).
pub fn take_last_tracked() -> usize {
    LAST_TRACKED.with(|l| l.replace(0))
}

fn lock() {
    while LOCK
        .compare_exchange_weak(false, true, Ordering::Acquire, Ordering::Relaxed)
        .is_err()
    {
        std::hint::spin_loop();
    }
}
fn unlock() {
    LOCK.store(false, Ordering::Release);
}

#[allow(static_mut_refs)]
fn tab() -> &'static mut Tab {
    unsafe { &mut TAB }
}

/// index of the entry whose block contains `addr`, if any (table is sorted by start)
fn find(t: &Tab, addr: usize) -> Option<usize> {
    let (mut lo, mut hi) = (0usize, t.n);
    while lo < hi {
        let mid = (lo + hi) / 2;
        if t.ents[mid].start <= addr {
            lo = mid + 1;
        } else {
            hi = mid;
        }
    }
    if lo == 0 {
        return None;
    }
    let e = &t.ents[lo - 1];
    if addr < e.start + e.size.max(1) {
        Some(lo - 1)
    } else {
        None
    }
}

fn checksum(start: usize, size: usize) -> u64 {
    let mut h: u64 = 0xcbf29ce484222325;
    for i in 0..size {
        let b = unsafe { *((start + i) as *const u8) };
        h ^= b as u64;
        h = h.wrapping_mul(0x100000001b3);
    }
    h
}

unsafe impl GlobalAlloc for QAlloc {
    unsafe fn alloc(&self, layout: Layout) -> *mut u8 {
        let p = System.alloc(layout);
        if TRACK.load(Ordering::Relaxed) && !p.is_null() {
            let want = EXPECT.with(|e| e.get());
            if want.0 != 0 && want.0 == layout.size() && want.1 == layout.align() {
                EXPECT.with(|e| e.set((0, 0)));
                LAST_TRACKED.with(|l| l.set(p as usize));
                lock();
                let t = tab();
                if t.n < CAP {
                    // insert sorted
                    let addr = p as usize;
                    let mut i = t.n;
                    while i > 0 && t.ents[i - 1].start > addr {
                        t.ents[i] = t.ents[i - 1];
                        i -= 1;
                    }
                    t.ents[i] = Ent {
                        start: addr,
                        size: layout.size(),
                        align: layout.align(),
                        sum: 0,
                        freed: false,
                        seq: 0,
                    };
                    t.n += 1;
                } else {
                    OVERFLOW.store(true, Ordering::Relaxed);
                }
                unlock();
            }
        }
        p
    }

    unsafe fn dealloc(&self, p: *mut u8, layout: Layout) {
        if TRACK.load(Ordering::Relaxed) {
            lock();
            let t = tab();
            if let Some(i) = find(t, p as usize) {
                if t.ents[i].start == p as usize && t.ents[i].freed {
                    // double free of a quarantined block: keep the memory, remember the fact
                    DOUBLE_FREE.fetch_add(1, Ordering::Relaxed);
                    unlock();
                    return;
                }
                if t.ents[i].start == p as usize && !t.ents[i].freed {
                    t.ents[i].freed = true;
                    // poison: a read through a stale pointer sees 0xDE.. (a non-canonical address when
                    // it is followed as a pointer), a write is found by the checksum at the end
                    std::ptr::write_bytes(p, 0xDE, layout.size());
                    t.ents[i].sum = checksum(p as usize, layout.size());
                    t.ents[i].seq = FREE_SEQ.fetch_add(1, Ordering::Relaxed) + 1;
                    unlock();
                    return; // quarantined: memory is kept
                }
            }
            unlock();
        }
        System.dealloc(p, layout)
    }
}

/// The BOXED pre-hook: the next allocation of this layout on this thread is a flurry object.
pub fn expect_alloc(size: usize, align: usize) {
    EXPECT.with(|e| e.set((size, align)));
}

pub fn begin() {
    TRACK.store(true, Ordering::SeqCst);
    OVERFLOW.store(false, Ordering::SeqCst);
}

/// Status of an address: None = not in a tracked block; Some((start, size, freed, free_seq)).
pub fn lookup(addr: usize) -> Option<(usize, usize, bool, usize)> {
    lock();
    let t = tab();
    let r = find(t, addr).map(|i| {
        let e = &t.ents[i];
        (e.start, e.size, e.freed, e.seq)
    });
    unlock();
    r
}

/// Blocks freed with sequence number > `after`, in free order: (seq, start, size).
pub fn freed_since(after: usize) -> Vec<(usize, usize, usize)> {
    if FREE_SEQ.load(Ordering::Relaxed) <= after {
        return vec![];
    }
    let mut v: Vec<(usize, usize, usize)> = Vec::new();
    v.reserve(64);
    lock();
    let t = tab();
    let mut over = false;
    for i in 0..t.n {
        let e = &t.ents[i];
        if e.freed && e.seq > after {
            if v.len() < v.capacity() {
                v.push((e.seq, e.start, e.size));
            } else {
                over = true;
            }
        }
    }
    unlock();
    if over {
        // retry with a bigger buffer (allocation must happen outside the lock)
        let mut cap = 1024;
        loop {
            let mut w: Vec<(usize, usize, usize)> = Vec::with_capacity(cap);
            lock();
            let t = tab();
            let mut ok = true;
            for i in 0..t.n {
                let e = &t.ents[i];
                if e.freed && e.seq > after {
                    if w.len() < w.capacity() {
                        w.push((e.seq, e.start, e.size));
                    } else {
                        ok = false;
                        break;
                    }
                }
            }
            unlock();
            if ok {
                v = w;
                break;
            }
            cap *= 4;
        }
    }
    v.sort();
    v
}

pub fn free_seq() -> usize {
    FREE_SEQ.load(Ordering::Relaxed)
}

/// Ends tracking: verifies the checksums of all quarantined blocks, releases them, forgets all
/// tracked blocks. Returns (live tracked blocks, quarantined blocks, corrupted blocks, overflow).
pub fn end() -> (usize, usize, Vec<(usize, usize)>, bool) {
    TRACK.store(false, Ordering::SeqCst);
    let mut corrupted = Vec::new();
    let mut to_free: Vec<(usize, usize, usize)> = Vec::new();
    lock();
    let n = tab().n;
    unlock();
    to_free.reserve(n + 8);
    corrupted.reserve(64);
    lock();
    let t = tab();
    let mut live = 0;
    for i in 0..t.n {
        let e = t.ents[i];
        if e.freed {
            if checksum(e.start, e.size) != e.sum && corrupted.len() < corrupted.capacity() {
                corrupted.push((e.start, e.size));
            }
            if to_free.len() < to_free.capacity() {
                to_free.push((e.start, e.size, e.align));
            }
        } else {
            live += 1;
        }
    }
    t.n = 0;
    unlock();
    let q = to_free.len();
    for (s, size, align) in to_free {
        unsafe { System.dealloc(s as *mut u8, Layout::from_size_align_unchecked(size, align)) };
    }
    FREE_SEQ.store(0, Ordering::SeqCst);
    (live, q, corrupted, OVERFLOW.load(Ordering::SeqCst))
}
