//! Projection of the inspector snapshot to the JSON form used by the TLA+ trace specifications
//! (addresses are renamed to small canonical numbers; keys / values by id / uid).

use std::collections::HashMap as StdMap;

use flurry::verif::{BinInfo, Snapshot};
use serde_json::{json, Value};

use crate::kv::{Key, Val, H};

pub struct Renamer {
    map: StdMap<usize, u64>,
}

impl Renamer {
    pub fn new() -> Renamer {
        Renamer {
            map: StdMap::new(),
        }
    }
    pub fn id(&mut self, addr: usize) -> u64 {
        if addr == 0 {
            return 0;
        }
        let n = self.map.len() as u64 + 1;
        *self.map.entry(addr).or_insert(n)
    }
}

pub fn project<V>(
    s: &Snapshot<'_, Key, V>,
    h: &H,
    val: &dyn Fn(&V) -> u64,
    raw_addrs: bool,
) -> Value {
    let mut rn = Renamer::new();
    let mut id = |a: usize| if raw_addrs { a as u64 } else { rn.id(a) };
    let mut tables = vec![];
    for t in &s.tables {
        let mut bins = vec![];
        let mask = (t.bins.len() as u64).wrapping_sub(1);
        for b in &t.bins {
            bins.push(match b {
                BinInfo::Empty => json!({"kind": "empty"}),
                BinInfo::Moved => json!({"kind": "moved"}),
                BinInfo::List {
                    addr,
                    locked,
                    nodes,
                } => {
                    let ns: Vec<Value> = nodes
                        .iter()
                        .map(|n| {
                            json!({"n": id(n.addr), "k": n.key.id, "tag": n.key.tag,
                                   "hok": (n.hash == h.hash_of(n.key.id)) as u8,
                                   "hb": h.hash_of(n.key.id) & mask,
                                   "v": n.value.map(val).unwrap_or(0), "va": id(n.value_addr)})
                        })
                        .collect();
                    json!({"kind": "list", "a": id(*addr), "locked": *locked as u8, "nodes": ns})
                }
                BinInfo::Tree {
                    addr,
                    locked,
                    lock_state,
                    waiter,
                    root,
                    first,
                    nodes,
                    in_order,
                } => {
                    let ns: Vec<Value> = nodes
                        .iter()
                        .map(|n| {
                            let tl = n.tree.expect("tree node has links");
                            json!({"n": id(n.addr), "k": n.key.id, "tag": n.key.tag,
                                   "hok": (n.hash == h.hash_of(n.key.id)) as u8,
                                   "hb": h.hash_of(n.key.id) & mask,
                                   "h0": n.hash & 0xfffff, "h1": (n.hash >> 20) & 0xfffff, "h2": (n.hash >> 40) & 0xffffff,
                                   "v": n.value.map(val).unwrap_or(0), "va": id(n.value_addr),
                                   "next": id(n.next), "prev": id(tl.prev), "parent": id(tl.parent),
                                   "left": id(tl.left), "right": id(tl.right), "red": tl.red as u8})
                        })
                        .collect();
                    let io: Value = match in_order {
                        Some(v) => json!(v.iter().map(|a| id(*a)).collect::<Vec<u64>>()),
                        None => Value::Null,
                    };
                    json!({"kind": "tree", "a": id(*addr), "locked": *locked as u8, "ls": lock_state,
                           "waiter": id(*waiter), "root": id(*root), "first": id(*first),
                           "nodes": ns, "inorder": io})
                }
            });
        }
        tables.push(json!({"a": id(t.addr), "len": t.bins.len(), "nt": id(t.next_table), "bins": bins}));
    }
    json!({"table": id(s.table), "next_table": id(s.next_table), "sc": s.size_ctl as i64,
           "ti": s.transfer_index as i64, "count": s.count as i64, "tables": tables})
}

pub fn val_uid(v: &Val) -> u64 {
    v.uid
}
pub fn unit_uid(_: &()) -> u64 {
    1
}

/// All addresses reachable from the map's roots (tables, bins, nodes, values).
pub fn reachable<V>(s: &Snapshot<'_, Key, V>) -> std::collections::HashSet<usize> {
    let mut r = std::collections::HashSet::new();
    for t in &s.tables {
        r.insert(t.addr);
        for b in &t.bins {
            match b {
                BinInfo::List { nodes, .. } => {
                    for n in nodes {
                        r.insert(n.addr);
                        r.insert(n.value_addr);
                    }
                }
                BinInfo::Tree {
                    addr,
                    nodes,
                    waiter,
                    in_order,
                    ..
                } => {
                    r.insert(*addr);
                    r.insert(*waiter);
                    if let Some(io) = in_order {
                        for a in io {
                            r.insert(*a);
                        }
                    }
                    for n in nodes {
                        r.insert(n.addr);
                        r.insert(n.value_addr);
                    }
                }
                _ => {}
            }
        }
    }
    r.remove(&0);
    r
}
