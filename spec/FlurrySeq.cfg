SPECIFICATION Spec
CONSTANTS
  Keys = {1, 2, 3}
  D = 12
INVARIANT Emit
CHECK_DEADLOCK FALSE
