SPECIFICATION Spec
CONSTANTS
  Readers = {r1, r2}
  Writers = {w1, w2}
  NOps = 2
  PROTECTED = TRUE
  RETIRE_FIRST = TRUE
INVARIANTS NoUseAfterFree ReachableLive ExactlyOnce NoLeak
CHECK_DEADLOCK FALSE
