------------------------------- MODULE Sizing -------------------------------
(***************************************************************************)
(* Capacity arithmetic of flurry (C14, C10), checked by TLC for every      *)
(* requested capacity c in 0..MaxC and every legal table length:           *)
(*   TableSizeFor(c) = next power of two of 1.5c + 1, capped at 2^30       *)
(*   LoadFactor(n)   = n - n/4;  threshold after a resize = 2n - n/2       *)
(* Room: a table sized for c holds c collision-free entries below its      *)
(* threshold (a resize starts when an insert brings the count to it).      *)
(* The resize-stamp facts (injective in n, negative after the shift, the   *)
(* helper count never carries into the stamp) concern 64-bit values and    *)
(* are checked on the real function's outputs by tools/c10.py.             *)
(***************************************************************************)
EXTENDS Naturals, TLC
CONSTANT MaxC
MAXCAP == 2^30
Pow2 == {2^i : i \in 0..30}
\* (TLC integers are 32 bit: arguments stay below 2^30 + 2^29 + 1, results are capped at 2^30)
NextPow2(x) == IF x > MAXCAP THEN MAXCAP + 1 ELSE CHOOSE p \in Pow2 : p >= x /\ (p = 1 \/ p \div 2 < x)
TableSizeFor(c) ==
  IF c >= MAXCAP \div 2 THEN MAXCAP
  ELSE LET s == c + c \div 2 + 1 IN IF NextPow2(s) > MAXCAP THEN MAXCAP ELSE NextPow2(s)
LoadFactor(n) == n - n \div 4
Room(c) == c < LoadFactor(TableSizeFor(c))
ASSUME RoomForRequested == \A c \in 1..MaxC : Room(c) /\ TableSizeFor(c) \in Pow2
ASSUME ThresholdAfterResize == \A n \in Pow2 : n < MAXCAP => 2 * n - n \div 2 = LoadFactor(2 * n)
ASSUME Monotone == \A c \in 1..(MaxC - 1) : TableSizeFor(c) <= TableSizeFor(c + 1)
ASSUME Caps == TableSizeFor(MAXCAP \div 2) = MAXCAP /\ TableSizeFor(MAXCAP) = MAXCAP /\ TableSizeFor((MAXCAP \div 2) - 1) = MAXCAP
VARIABLE x
Init == x = 0
Next == UNCHANGED x
Spec == Init /\ [][Next]_x
=============================================================================
