----------------------------- MODULE Trace_HB -----------------------------
(***************************************************************************)
(* C15: updates happen-before the reads that observe them.  The recorded   *)
(* stream of atomic operations of a scheduler-controlled run (each with    *)
(* the ordering the call site actually passed), mutex lock/unlock,         *)
(* park/unpark, allocations and dereferences is replayed through the       *)
(* vector-clock semantics of MemModel.  Under the cooperative scheduler    *)
(* every load reads the latest store in trace order, so reads-from is the  *)
(* trace order; the happens-before relation is computed from orderings,    *)
(* not from what the hardware did.  Required at every step:                *)
(*   deref(t,o):  the allocation/initialisation of o happens-before it     *)
(*   load of a location last written Relaxed by another thread: that store *)
(*                happens-before the load (else the reader may see stale   *)
(*                tree links / list links on weaker hardware)              *)
(* Events: {e, t, a|o|m|u, acq, rel} with e in st, ld, rmw, lock, unlock,  *)
(* park, unpark, alloc, deref, fork, join.                                 *)
(***************************************************************************)
EXTENDS MemModel, Sequences, Json, IOUtils

Traces == ndJsonDeserialize(IOEnv.TRACES)
Diag == "DIAG" \in DOMAIN IOEnv /\ IOEnv.DIAG = "1"
VARIABLES tr, l, S
vars == <<tr, l, S>>
Ev == Traces[tr].ev
SeqToSet(s) == {s[i] : i \in 1..Len(s)}

Init == tr \in 1..Len(Traces) /\ l = 1 /\ S = InitState(SeqToSet(Traces[tr].threads))

Next ==
  /\ l <= Len(Ev)
  /\ LET e == Ev[l] IN
     CASE e.e = "ld" -> ReadOk(S, e.t, e.a) /\ S' = Load(S, e.t, e.a, e.acq = 1)
       [] e.e = "st" -> S' = Store(S, e.t, e.a, e.rel = 1)
       [] e.e = "rmw" -> ReadOk(S, e.t, e.a) /\ S' = Rmw(S, e.t, e.a, e.acq = 1, e.rel = 1)
       [] e.e = "lock" -> S' = Lock(S, e.t, e.a)
       [] e.e = "unlock" -> S' = Unlock(S, e.t, e.a)
       [] e.e = "unpark" -> S' = Unpark(S, e.t, e.a)
       [] e.e = "park" -> S' = Park(S, e.t)
       [] e.e = "alloc" -> S' = Alloc(S, e.t, e.a)
       [] e.e = "deref" -> DerefOk(S, e.t, e.a) /\ S' = S
       [] e.e = "fork" -> S' = Fork(S, e.t)
       [] e.e = "join" -> S' = JoinAll(S, e.t)
       [] OTHER -> FALSE
  /\ l' = l + 1 /\ UNCHANGED tr
Spec == Init /\ [][Next]_vars
Done == l > Len(Ev)
Report ==
  /\ Done => PrintT(<<"ACCEPT", Traces[tr].id>>)
  /\ Diag => PrintT(<<"AT", Traces[tr].id, l>>)
=============================================================================
