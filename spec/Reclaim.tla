------------------------------ MODULE Reclaim ------------------------------
(***************************************************************************)
(* Object life cycle under guard-based deferred reclamation (C03 / C04),   *)
(* as flurry uses seize: a reader enters a guard, loads a pointer from a   *)
(* shared cell, and may use the object until it leaves the guard; a writer *)
(* (under its own guard) swaps the cell to a fresh object - unlinking the  *)
(* old one - and only then retires it; the collector may free a retired    *)
(* object once every guard that was live at its retirement has been left   *)
(* (any batch size: the Free action is enabled as soon as that holds).     *)
(* PROTECTED = FALSE models retiring through Guard::unprotected(), i.e.    *)
(* immediate reclamation (what FromIterator did: finding F1);              *)
(* RETIRE_FIRST = TRUE models "retire before unlink".                      *)
(* This is the model Trace_Reclaim checks recorded executions against.     *)
(***************************************************************************)
EXTENDS Naturals, FiniteSets, TLC
CONSTANTS Readers, Writers, NOps, PROTECTED, RETIRE_FIRST
VARIABLES cell,      \* the shared pointer: current object id
          nextObj,
          ostate,    \* object -> "live" | "retired" | "freed"
          prot,      \* object -> set of threads whose guard was live at its retirement
          guard,     \* thread -> guard live?
          held,      \* reader -> object it holds a reference to (0 = none)
          pc, n, old
vars == <<cell, nextObj, ostate, prot, guard, held, pc, n, old>>
Threads == Readers \cup Writers
MaxObj == 1 + NOps * Cardinality(Writers)

Init ==
  /\ cell = 1 /\ nextObj = 2
  /\ ostate = [o \in 1..MaxObj |-> IF o = 1 THEN "live" ELSE "unborn"]
  /\ prot = [o \in 1..MaxObj |-> {}]
  /\ guard = [t \in Threads |-> FALSE] /\ held = [t \in Threads |-> 0]
  /\ pc = [t \in Threads |-> "enter"] /\ n = [t \in Threads |-> 0] /\ old = [t \in Threads |-> 0]

Enter(t) == /\ pc[t] = "enter" /\ guard' = [guard EXCEPT ![t] = TRUE]
            /\ pc' = [pc EXCEPT ![t] = IF t \in Readers THEN "load" ELSE "swap"]
            /\ UNCHANGED <<cell, nextObj, ostate, prot, held, n, old>>
\* reader
Load(t) == /\ pc[t] = "load" /\ held' = [held EXCEPT ![t] = cell] /\ pc' = [pc EXCEPT ![t] = "use"]
           /\ UNCHANGED <<cell, nextObj, ostate, prot, guard, n, old>>
Use(t) ==  /\ pc[t] = "use" /\ pc' = [pc EXCEPT ![t] = "leave"]     \* the access itself; checked by NoUseAfterFree
           /\ UNCHANGED <<cell, nextObj, ostate, prot, guard, held, n, old>>
\* writer: unlink (swap the cell) then retire - or the other way round if RETIRE_FIRST
DoRetire(t, o) ==
  IF PROTECTED
  THEN /\ ostate' = [ostate EXCEPT ![o] = "retired"]
       /\ prot' = [prot EXCEPT ![o] = {u \in Threads : guard[u]}]
  ELSE /\ ostate' = [ostate EXCEPT ![o] = "freed"] /\ UNCHANGED prot       \* reclaimed on the spot
Swap(t) == /\ pc[t] = "swap"
           /\ IF RETIRE_FIRST
              THEN /\ old' = [old EXCEPT ![t] = cell] /\ DoRetire(t, cell) /\ pc' = [pc EXCEPT ![t] = "unlink"]
                   /\ UNCHANGED <<cell, nextObj>>
              ELSE /\ old' = [old EXCEPT ![t] = cell] /\ cell' = nextObj /\ nextObj' = nextObj + 1
                   /\ ostate' = [ostate EXCEPT ![nextObj] = "live"] /\ pc' = [pc EXCEPT ![t] = "retire"]
                   /\ UNCHANGED prot
           /\ UNCHANGED <<guard, held, n>>
Unlink(t) == /\ pc[t] = "unlink" /\ cell' = nextObj /\ nextObj' = nextObj + 1
             /\ ostate' = [ostate EXCEPT ![nextObj] = "live"] /\ pc' = [pc EXCEPT ![t] = "leave"]
             /\ UNCHANGED <<prot, guard, held, n, old>>
Retire(t) == /\ pc[t] = "retire"
             /\ IF cell = old[t] \/ ostate[old[t]] # "live"     \* another writer got there first: nothing to retire
                THEN UNCHANGED <<ostate, prot>> ELSE DoRetire(t, old[t])
             /\ pc' = [pc EXCEPT ![t] = "leave"]
             /\ UNCHANGED <<cell, nextObj, guard, held, n, old>>
Leave(t) == /\ pc[t] = "leave"
            /\ guard' = [guard EXCEPT ![t] = FALSE] /\ held' = [held EXCEPT ![t] = 0]
            /\ prot' = [o \in 1..MaxObj |-> prot[o] \ {t}]
            /\ n' = [n EXCEPT ![t] = @ + 1]
            /\ pc' = [pc EXCEPT ![t] = IF n[t] + 1 >= NOps THEN "done" ELSE "enter"]
            /\ UNCHANGED <<cell, nextObj, ostate, old>>
\* the collector (environment): any retired object nobody protects any more may be freed, at any time
Free(o) == /\ ostate[o] = "retired" /\ prot[o] = {}
           /\ ostate' = [ostate EXCEPT ![o] = "freed"]
           /\ UNCHANGED <<cell, nextObj, prot, guard, held, pc, n, old>>
Next == (\E t \in Threads : Enter(t) \/ Load(t) \/ Use(t) \/ Swap(t) \/ Unlink(t) \/ Retire(t) \/ Leave(t))
        \/ (\E o \in 1..MaxObj : Free(o))
Spec == Init /\ [][Next]_vars

\* C03: a reference obtained under a guard is valid until the guard is left; nothing reachable is freed
NoUseAfterFree == \A t \in Readers : (held[t] # 0 /\ guard[t]) => ostate[held[t]] # "freed"
ReachableLive == ostate[cell] = "live"
\* C04: nothing is retired or freed twice (state machine), and at the end everything unlinked is gone
ExactlyOnce == \A o \in 1..MaxObj : ostate[o] \in {"unborn", "live", "retired", "freed"}
AllDone == \A t \in Threads : pc[t] = "done"
NoLeak == (AllDone /\ \A o \in 1..MaxObj : ostate[o] # "retired") => \A o \in 1..MaxObj : (o # cell /\ ostate[o] # "unborn") => ostate[o] = "freed"
=============================================================================
