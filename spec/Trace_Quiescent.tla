------------------------- MODULE Trace_Quiescent -------------------------
(***************************************************************************)
(* C05: at quiescence lookups, iteration and len() agree and the table is  *)
(* well formed.  Each recorded observation (taken when no operation is in  *)
(* flight) carries: len(), is_empty(), the items yielded by iter(), the    *)
(* result of get_key_value for every key of the universe, and the          *)
(* inspector's projection of the real table.  QuiescentOK is evaluated on  *)
(* each of them.  The same predicate is an invariant of the                *)
(* implementation-shaped specification (Flurry.tla: QuiescentOK).          *)
(* Input: env TRACES = ndjson {id, ev: [ {len, empty, items, gets, snap} ]}*)
(***************************************************************************)
EXTENDS Naturals, Sequences, FiniteSets, TLC, Json, IOUtils

Traces == ndJsonDeserialize(IOEnv.TRACES)
Diag == "DIAG" \in DOMAIN IOEnv /\ IOEnv.DIAG = "1"
VARIABLES tr, l
vars == <<tr, l>>
Ev == Traces[tr].ev
SeqToSet(s) == {s[i] : i \in 1..Len(s)}
B(b) == IF b THEN 1 ELSE 0
Pow2 == {2^i : i \in 0..30}

Nodes(b) == IF b.kind \in {"list", "tree"} THEN b.nodes ELSE <<>>

QuiescentOK(q) ==
  LET s == q.snap IN
  /\ s.next_table = 0                       \* no half-finished resize is left behind
  /\ s.sc >= 0
  /\ IF s.table = 0
     THEN /\ Len(s.tables) = 0
          /\ q.len = 0 /\ q.empty = 1 /\ q.items = <<>> /\ s.count = 0
          /\ \A i \in 1..Len(q.gets) : q.gets[i][2] = 0 /\ q.gets[i][3] = 0
     ELSE
     /\ Len(s.tables) = 1
     /\ LET bins == s.tables[1].bins
            n == Len(bins)
            E == {<<i, j>> \in (1..n) \X (1..64) : j <= Len(Nodes(bins[i]))}
            nd(e) == Nodes(bins[e[1]])[e[2]]
        IN
        /\ n \in Pow2 /\ s.tables[1].len = n
        /\ \A i \in 1..n : bins[i].kind # "moved"              \* no forwarding marker
        /\ \A i \in 1..n : Len(Nodes(bins[i])) <= 64
        /\ \A i \in 1..n : bins[i].kind \in {"list", "tree"} => Len(bins[i].nodes) > 0
        /\ \A e \in E : nd(e).hb = e[1] - 1 /\ nd(e).hok = 1    \* where a lookup for its hash searches
        /\ \A e1, e2 \in E : e1 # e2 => nd(e1).k # nd(e2).k     \* no key twice
        /\ \A e \in E : nd(e).v # 0
        \* iteration yields exactly the entries, each once, with the value lookup returns
        /\ Len(q.items) = Cardinality(E)
        /\ SeqToSet(q.items) = {<<nd(e).k, nd(e).tag, nd(e).v>> : e \in E}
        /\ \A i \in 1..Len(q.gets) :
             LET g == q.gets[i] IN
             IF \E e \in E : nd(e).k = g[1]
             THEN \E e \in E : nd(e).k = g[1] /\ nd(e).tag = g[2] /\ nd(e).v = g[3]
             ELSE g[2] = 0 /\ g[3] = 0
        /\ q.len = Cardinality(E) /\ s.count = q.len /\ q.empty = B(q.len = 0)
        \* nothing is locked, no writer or reader registered on a tree bin
        /\ \A i \in 1..n : bins[i].kind \in {"list", "tree"} => bins[i].locked = 0
        /\ \A i \in 1..n : bins[i].kind = "tree" => bins[i].ls = 0 /\ bins[i].waiter = 0

Init == tr \in 1..Len(Traces) /\ l = 1
Next == /\ l <= Len(Ev) /\ l' = l + 1 /\ UNCHANGED tr /\ QuiescentOK(Ev[l])
Spec == Init /\ [][Next]_vars
Done == l > Len(Ev)
Report ==
  /\ Done => PrintT(<<"ACCEPT", Traces[tr].id>>)
  /\ Diag => PrintT(<<"AT", Traces[tr].id, l>>)
=============================================================================
