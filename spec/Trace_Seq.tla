---------------------------- MODULE Trace_Seq ----------------------------
(***************************************************************************)
(* Sequential conformance monitor (C02, C09, C18, and the sequential part  *)
(* of C05/C13/C19): replays a recorded single-threaded run of the real     *)
(* crate against SeqOps.  Deterministic: one step per recorded event.      *)
(*   op  event: operation + logged result + logged callback invocations    *)
(*   obs event: len / is_empty / full contents via iteration / lookup of   *)
(*              every key of the universe, taken after the operation       *)
(* Input: env TRACES = ndjson {id, set, keys, ev}.                         *)
(***************************************************************************)
EXTENDS SeqOps, Json, IOUtils

Traces == ndJsonDeserialize(IOEnv.TRACES)
Diag == "DIAG" \in DOMAIN IOEnv /\ IOEnv.DIAG = "1"

VARIABLES tr, l, m
vars == <<tr, l, m>>
Ev == Traces[tr].ev
IsSet == Traces[tr].set = 1

Init ==
  /\ tr \in 1..Len(Traces)
  /\ l = 1
  /\ m = [k \in SeqToSet(Traces[tr].keys) |-> Absent]

OpEv ==
  /\ l <= Len(Ev) /\ Ev[l].e = "op"
  /\ l' = l + 1
  /\ UNCHANGED tr
  /\ LET o == Ev[l]
         x == SeqStep(m, o, o.preds, IsSet)
     IN
     /\ m' = x.m
     /\ o.r.panic = x.panic
     /\ (x.panic = 0 /\ o.op \in PerKeyOps) => Matches(o, o.r, x.r, IsSet)
     /\ (x.panic = 0 /\ o.op = "compute") => o.ncb = (IF x.r.seen = 0 THEN 0 ELSE 1)
     /\ (x.panic = 0 /\ o.op = "index") => o.r.v = x.r.v
     /\ (x.panic = 0) => WholeOk(m, o, o.r, o.preds, IsSet)
     /\ (x.panic = 1 /\ o.op \in {"retain", "retain_force"} /\ ~ForeignUse(o))
           => WholeOk(m, o, o.r, o.preds, IsSet)

ObsEv ==
  /\ l <= Len(Ev) /\ Ev[l].e = "obs"
  /\ l' = l + 1
  /\ UNCHANGED <<tr, m>>
  /\ LET b == Ev[l]  n == Cardinality(PresentKeys(m)) IN
     /\ b.len = n
     /\ b.empty = B(n = 0)
     /\ Len(b.items) = n
     /\ SeqToSet(b.items) = Items(m)
     /\ \A i \in 1..Len(b.gets) :
          LET g == b.gets[i] IN
          /\ g[1] \in DOMAIN m
          /\ g[2] = m[g[1]].tag
          /\ g[3] = m[g[1]].v

Next == OpEv \/ ObsEv
Spec == Init /\ [][Next]_vars
Done == l > Len(Ev)
Report ==
  /\ Done => PrintT(<<"ACCEPT", Traces[tr].id>>)
  /\ Diag => PrintT(<<"AT", Traces[tr].id, l>>)
=============================================================================
