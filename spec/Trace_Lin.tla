---------------------------- MODULE Trace_Lin ----------------------------
(***************************************************************************)
(* Linearizability monitor (C01, C08): validates call/return histories     *)
(* recorded from the real crate against the abstract map of AbsOps.        *)
(* One initial state per recorded trace; the only nondeterminism is where  *)
(* the silent linearization step Lin(t) of each pending call is placed     *)
(* between its call and its return.  A trace is accepted iff some          *)
(* placement explains every logged result (including the value handed to   *)
(* compute_if_present's closure and the number of its invocations).        *)
(* Input: env TRACES = ndjson, one object per line:                        *)
(*   {id, set (0/1), keys [..], threads [..], ev [ {e,t,op,k,tag,v,f} |    *)
(*                                 {e,t,ok,v,tag,ni,seen,pl,ncb,panic} ]} *)
(***************************************************************************)
EXTENDS AbsOps, FiniteSets, TLC, Json, IOUtils

Traces == ndJsonDeserialize(IOEnv.TRACES)
Diag == "DIAG" \in DOMAIN IOEnv /\ IOEnv.DIAG = "1"

VARIABLES tr, l, abs, pend
vars == <<tr, l, abs, pend>>

Ev == Traces[tr].ev
SeqToSet(s) == {s[i] : i \in 1..Len(s)}
IsSet == Traces[tr].set = 1
Idle == [st |-> "idle", o |-> Absent, x |-> Absent]

Init ==
  /\ tr \in 1..Len(Traces)
  /\ l = 1
  /\ abs = [k \in SeqToSet(Traces[tr].keys) |-> Absent]
  /\ pend = [t \in SeqToSet(Traces[tr].threads) |-> Idle]

IsEv(kind) == l <= Len(Ev) /\ Ev[l].e = kind

Call ==
  /\ IsEv("call")
  /\ LET e == Ev[l] IN
     /\ pend[e.t].st = "idle"
     /\ e.op \in PerKeyOps
     /\ pend' = [pend EXCEPT ![e.t] = [st |-> "called", o |-> e, x |-> Absent]]
  /\ l' = l + 1
  /\ UNCHANGED <<tr, abs>>

\* the silent linearization point of thread t's pending call
Lin(t) ==
  /\ pend[t].st = "called"
  /\ abs' = ApplyState(abs, pend[t].o)
  /\ pend' = [pend EXCEPT ![t] = [st |-> "lin", o |-> @.o, x |-> ApplyResult(abs, @.o)]]
  /\ UNCHANGED <<tr, l>>

Ret ==
  /\ IsEv("ret")
  /\ LET e == Ev[l]  p == pend[e.t] IN
     /\ p.st = "lin"
     /\ e.panic = 0
     /\ Matches(p.o, e, p.x, IsSet)
     \* the closure runs at most once, exactly once if the key is present
     /\ (p.o.op = "compute") => e.ncb = (IF p.x.seen = 0 THEN 0 ELSE 1)
     /\ pend' = [pend EXCEPT ![e.t] = Idle]
  /\ l' = l + 1
  /\ UNCHANGED <<tr, abs>>

Next == Call \/ Ret \/ \E t \in DOMAIN pend : Lin(t)
Spec == Init /\ [][Next]_vars

Done == l > Len(Ev)
Report ==
  /\ Done => PrintT(<<"ACCEPT", Traces[tr].id>>)
  /\ Diag => PrintT(<<"AT", Traces[tr].id, l>>)
=============================================================================
