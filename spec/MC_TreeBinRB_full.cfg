CONSTANTS
  TREEONLY = FALSE
  MUT = 0
  NK = 7
  Keys <- MCKeys
  HashOf <- MCHash
  InitLists <- MCInit
SPECIFICATION Spec
INVARIANTS RBInvariants LookupsOK TooSmallOnlyWhenSmall
CHECK_DEADLOCK FALSE
