CONSTANTS
  TREEONLY = TRUE
  MUT = 0
  NK = 14
  Keys <- MCKeys
  HashOf <- MCHash
  InitLists <- MCInit
SPECIFICATION Spec
INVARIANTS RBInvariants LookupsOK TooSmallOnlyWhenSmall
CHECK_DEADLOCK FALSE
