----------------------------- MODULE TreeBinOps -----------------------------
(***************************************************************************)
(* Pure operators of TreeBinRB.tla (see there): the red-black algorithms of  *)
(* src/node.rs over a heap T : Id -> [h,k,parent,left,right,red,prev,next].  *)
(* Shared by the exhaustive model (TreeBinRB) and by step-level trace        *)
(* validation of the real tree bins (Trace_RBStep).                          *)
(***************************************************************************)
EXTENDS Naturals, Sequences, FiniteSets, TLC

CONSTANTS Keys, HashOf,
          MUT    \* 0 = the code; 1 = balance_deletion forgets to recolour a sibling (self-test of the invariants)

Blank == [h |-> 0, k |-> 0, parent |-> 0, left |-> 0, right |-> 0, red |-> FALSE, prev |-> 0, next |-> 0]
\* (hash, key) order
Less(a, b) == HashOf[a] < HashOf[b] \/ (HashOf[a] = HashOf[b] /\ a < b)

(* ---- rotations ----------------------------------------------------------- *)
RotateLeft(t, rt, p) ==
  IF p = 0 THEN <<t, rt>>
  ELSE LET r == t[p].right IN
       IF r = 0 THEN <<t, rt>>
       ELSE LET rl == t[r].left
                t1 == [t EXCEPT ![p].right = rl]
                t2 == IF rl # 0 THEN [t1 EXCEPT ![rl].parent = p] ELSE t1
                pp == t2[p].parent
                t3 == [t2 EXCEPT ![r].parent = pp]
                rt2 == IF pp = 0 THEN r ELSE rt
                t4 == IF pp = 0 THEN [t3 EXCEPT ![r].red = FALSE]
                      ELSE IF t3[pp].left = p THEN [t3 EXCEPT ![pp].left = r] ELSE [t3 EXCEPT ![pp].right = r]
                t5 == [t4 EXCEPT ![r].left = p]
            IN <<[t5 EXCEPT ![p].parent = r], rt2>>

RotateRight(t, rt, p) ==
  IF p = 0 THEN <<t, rt>>
  ELSE LET l == t[p].left IN
       IF l = 0 THEN <<t, rt>>
       ELSE LET lr == t[l].right
                t1 == [t EXCEPT ![p].left = lr]
                t2 == IF lr # 0 THEN [t1 EXCEPT ![lr].parent = p] ELSE t1
                pp == t2[p].parent
                t3 == [t2 EXCEPT ![l].parent = pp]
                rt2 == IF pp = 0 THEN l ELSE rt
                t4 == IF pp = 0 THEN [t3 EXCEPT ![l].red = FALSE]
                      ELSE IF t3[pp].right = p THEN [t3 EXCEPT ![pp].right = l] ELSE [t3 EXCEPT ![pp].left = l]
                t5 == [t4 EXCEPT ![l].right = p]
            IN <<[t5 EXCEPT ![p].parent = l], rt2>>

(* ---- balance_insertion ----------------------------------------------------- *)
RECURSIVE BalInsLoop(_, _, _)
BalInsLoop(t, rt, x) ==
  LET xp == t[x].parent IN
  IF xp = 0 THEN <<[t EXCEPT ![x].red = FALSE], x>>
  ELSE LET xpp == t[xp].parent IN
       IF ~t[xp].red \/ xpp = 0 THEN <<t, rt>>
       ELSE LET xppl == t[xpp].left IN
            IF xp = xppl
            THEN LET xppr == t[xpp].right IN
                 IF xppr # 0 /\ t[xppr].red
                 THEN BalInsLoop([t EXCEPT ![xppr].red = FALSE, ![xp].red = FALSE, ![xpp].red = TRUE], rt, xpp)
                 ELSE LET rot == IF x = t[xp].right THEN RotateLeft(t, rt, xp) ELSE <<t, rt>>
                          x2 == IF x = t[xp].right THEN xp ELSE x
                          ta == rot[1]
                          ra == rot[2]
                          xp2 == ta[x2].parent
                          xpp2 == IF x = t[xp].right THEN (IF xp2 = 0 THEN 0 ELSE ta[xp2].parent) ELSE xpp
                          tb == IF xp2 # 0 THEN [ta EXCEPT ![xp2].red = FALSE] ELSE ta
                          tc == IF xp2 # 0 /\ xpp2 # 0 THEN [tb EXCEPT ![xpp2].red = TRUE] ELSE tb
                          rr == IF xp2 # 0 /\ xpp2 # 0 THEN RotateRight(tc, ra, xpp2) ELSE <<tc, ra>>
                      IN BalInsLoop(rr[1], rr[2], x2)
            ELSE IF xppl # 0 /\ t[xppl].red
                 THEN BalInsLoop([t EXCEPT ![xppl].red = FALSE, ![xp].red = FALSE, ![xpp].red = TRUE], rt, xpp)
                 ELSE LET rot == IF x = t[xp].left THEN RotateRight(t, rt, xp) ELSE <<t, rt>>
                          x2 == IF x = t[xp].left THEN xp ELSE x
                          ta == rot[1]
                          ra == rot[2]
                          xp2 == ta[x2].parent
                          xpp2 == IF x = t[xp].left THEN (IF xp2 = 0 THEN 0 ELSE ta[xp2].parent) ELSE xpp
                          tb == IF xp2 # 0 THEN [ta EXCEPT ![xp2].red = FALSE] ELSE ta
                          tc == IF xp2 # 0 /\ xpp2 # 0 THEN [tb EXCEPT ![xpp2].red = TRUE] ELSE tb
                          rr == IF xp2 # 0 /\ xpp2 # 0 THEN RotateLeft(tc, ra, xpp2) ELSE <<tc, ra>>
                      IN BalInsLoop(rr[1], rr[2], x2)
BalanceInsertion(t, rt, x) == BalInsLoop([t EXCEPT ![x].red = TRUE], rt, x)

(* ---- balance_deletion ------------------------------------------------------ *)
IsRed(t, n) == n # 0 /\ t[n].red
RECURSIVE BalDelLoop(_, _, _)
BalDelLoop(t, rt, x) ==
  IF x = 0 \/ x = rt THEN <<t, rt>>
  ELSE LET xp == t[x].parent IN
  IF xp = 0 THEN <<[t EXCEPT ![x].red = FALSE], x>>
  ELSE IF t[x].red THEN <<[t EXCEPT ![x].red = FALSE], rt>>
  ELSE LET xpl == t[xp].left IN
  IF xpl = x
  THEN \* x is a left child; sibling = xp.right
       LET xpr0 == t[xp].right
           case1 == xpr0 # 0 /\ t[xpr0].red
           r1 == IF case1 THEN RotateLeft([t EXCEPT ![xpr0].red = FALSE, ![xp].red = TRUE], rt, xp) ELSE <<t, rt>>
           t1 == r1[1]
           rt1 == r1[2]
           xp1 == IF case1 THEN t1[x].parent ELSE xp
           xpr == IF case1 THEN (IF xp1 = 0 THEN 0 ELSE t1[xp1].right) ELSE xpr0
       IN IF xpr = 0 THEN BalDelLoop(t1, rt1, xp1)
          ELSE LET sl == t1[xpr].left
                   sr == t1[xpr].right
               IN IF ~IsRed(t1, sr) /\ ~IsRed(t1, sl)
                  THEN BalDelLoop(IF MUT = 1 THEN t1 ELSE [t1 EXCEPT ![xpr].red = TRUE], rt1, xp1)
                  ELSE LET case3 == ~IsRed(t1, sr)
                           t2a == IF case3 /\ sl # 0 THEN [t1 EXCEPT ![sl].red = FALSE] ELSE t1
                           t2b == IF case3 THEN [t2a EXCEPT ![xpr].red = TRUE] ELSE t2a
                           r2 == IF case3 THEN RotateRight(t2b, rt1, xpr) ELSE <<t2b, rt1>>
                           t2 == r2[1]
                           rt2 == r2[2]
                           xp2 == IF case3 THEN t2[x].parent ELSE xp1
                           xpr2 == IF case3 THEN (IF xp2 = 0 THEN 0 ELSE t2[xp2].right) ELSE xpr
                           t3 == IF xpr2 # 0
                                 THEN LET c == [t2 EXCEPT ![xpr2].red = IF xp2 = 0 THEN FALSE ELSE t2[xp2].red]
                                          sr2 == c[xpr2].right
                                      IN IF sr2 # 0 THEN [c EXCEPT ![sr2].red = FALSE] ELSE c
                                 ELSE t2
                           r4 == IF xp2 # 0 THEN RotateLeft([t3 EXCEPT ![xp2].red = FALSE], rt2, xp2) ELSE <<t3, rt2>>
                       IN BalDelLoop(r4[1], r4[2], r4[2])      \* x = root: the loop ends
  ELSE \* symmetric: x is a right child; sibling = xp.left
       LET xpl0 == xpl
           case1 == xpl0 # 0 /\ t[xpl0].red
           r1 == IF case1 THEN RotateRight([t EXCEPT ![xpl0].red = FALSE, ![xp].red = TRUE], rt, xp) ELSE <<t, rt>>
           t1 == r1[1]
           rt1 == r1[2]
           xp1 == IF case1 THEN t1[x].parent ELSE xp
           xpl1 == IF case1 THEN (IF xp1 = 0 THEN 0 ELSE t1[xp1].left) ELSE xpl0
       IN IF xpl1 = 0 THEN BalDelLoop(t1, rt1, xp1)
          ELSE LET sl == t1[xpl1].left
                   sr == t1[xpl1].right
               IN IF ~IsRed(t1, sl) /\ ~IsRed(t1, sr)
                  THEN BalDelLoop([t1 EXCEPT ![xpl1].red = TRUE], rt1, xp1)
                  ELSE LET case3 == ~IsRed(t1, sl)
                           t2a == IF case3 /\ sr # 0 THEN [t1 EXCEPT ![sr].red = FALSE] ELSE t1
                           t2b == IF case3 THEN [t2a EXCEPT ![xpl1].red = TRUE] ELSE t2a
                           r2 == IF case3 THEN RotateLeft(t2b, rt1, xpl1) ELSE <<t2b, rt1>>
                           t2 == r2[1]
                           rt2 == r2[2]
                           xp2 == IF case3 THEN t2[x].parent ELSE xp1
                           xpl2 == IF case3 THEN (IF xp2 = 0 THEN 0 ELSE t2[xp2].left) ELSE xpl1
                           t3 == IF xpl2 # 0
                                 THEN LET c == [t2 EXCEPT ![xpl2].red = IF xp2 = 0 THEN FALSE ELSE t2[xp2].red]
                                          sl2 == c[xpl2].left
                                      IN IF sl2 # 0 THEN [c EXCEPT ![sl2].red = FALSE] ELSE c
                                 ELSE t2
                           r4 == IF xp2 # 0 THEN RotateRight([t3 EXCEPT ![xp2].red = FALSE], rt2, xp2) ELSE <<t3, rt2>>
                       IN BalDelLoop(r4[1], r4[2], r4[2])
BalanceDeletion(t, rt, x) == BalDelLoop(t, rt, x)

(* ---- TreeBin::new ------------------------------------------------------------ *)
RECURSIVE Descend(_, _, _)
\* the node under which x is linked, and the side: <<parent, "L"|"R">>
Descend(t, p, x) ==
  IF Less(x, p) THEN (IF t[p].left = 0 THEN <<p, "L">> ELSE Descend(t, t[p].left, x))
  ELSE (IF t[p].right = 0 THEN <<p, "R">> ELSE Descend(t, t[p].right, x))
RECURSIVE BuildFrom(_, _, _, _)
BuildFrom(t, rt, lst, i) ==
  IF i > Len(lst) THEN <<t, rt>>
  ELSE LET x == lst[i] IN
       IF rt = 0 THEN BuildFrom([t EXCEPT ![x].parent = 0, ![x].red = FALSE, ![x].left = 0, ![x].right = 0], x, lst, i + 1)
       ELSE LET d == Descend(t, rt, x)
                t1 == [t EXCEPT ![x].parent = d[1], ![x].left = 0, ![x].right = 0]
                t2 == IF d[2] = "L" THEN [t1 EXCEPT ![d[1]].left = x] ELSE [t1 EXCEPT ![d[1]].right = x]
                b == BalanceInsertion(t2, rt, x)
            IN BuildFrom(b[1], b[2], lst, i + 1)
\* the list as treeify_bin / the resize split build it: prev / next in list order
ListNodes(lst) ==
  [id \in Keys \cup {0} |->
     IF \E i \in 1..Len(lst) : lst[i] = id
     THEN LET i == CHOOSE i \in 1..Len(lst) : lst[i] = id IN
          [Blank EXCEPT !.h = HashOf[id], !.k = id,
                        !.prev = IF i = 1 THEN 0 ELSE lst[i - 1], !.next = IF i = Len(lst) THEN 0 ELSE lst[i + 1]]
     ELSE Blank]

(* ---- find_tree_node (lookups) -------------------------------------------------- *)
RECURSIVE FindFrom(_, _, _, _)
\* <<found node or 0, number of key comparisons (Eq + Ord calls)>>
FindFrom(t, p, k, cmps) ==
  IF p = 0 THEN <<0, cmps>>
  ELSE IF HashOf[p] > HashOf[k] THEN FindFrom(t, t[p].left, k, cmps)
  ELSE IF HashOf[p] < HashOf[k] THEN FindFrom(t, t[p].right, k, cmps)
  ELSE IF p = k THEN <<p, cmps + 1>>
  ELSE IF t[p].left = 0 THEN FindFrom(t, t[p].right, k, cmps + 1)
  ELSE IF t[p].right = 0 THEN FindFrom(t, t[p].left, k, cmps + 1)
  ELSE FindFrom(t, IF p > k THEN t[p].left ELSE t[p].right, k, cmps + 2)

(* ---- find_or_put_tree_val (key absent, tree not empty): <<heap, root, first>> ---------- *)
InsertOp(T, root, first, k) ==
  LET d == Descend(T, root, k)
      xp == d[1]
      t1 == [T EXCEPT ![k] = [Blank EXCEPT !.h = HashOf[k], !.k = k, !.next = first, !.parent = xp]]
      t2 == IF first # 0 THEN [t1 EXCEPT ![first].prev = k] ELSE t1
      t3 == IF d[2] = "L" THEN [t2 EXCEPT ![xp].left = k] ELSE [t2 EXCEPT ![xp].right = k]
      b == IF ~t3[xp].red THEN <<[t3 EXCEPT ![k].red = TRUE], root>> ELSE BalanceInsertion(t3, root, k)
  IN <<b[1], b[2], k>>

(* ---- remove_tree_node -------------------------------------------------------------- *)
\* <<heap, root, first, too_small>>; with too_small the tree links are left as they are (the caller untreeifies)
RemoveOp(T, root, first, p) ==
     LET nx == T[p].next
         pv == T[p].prev
         ta == IF pv = 0 THEN T ELSE [T EXCEPT ![pv].next = nx]
         f2 == IF pv = 0 THEN nx ELSE first
         tb == IF nx # 0 THEN [ta EXCEPT ![nx].prev = pv] ELSE ta
         small == \/ f2 = 0
                  \/ root = 0 \/ tb[root].right = 0
                  \/ tb[root].left = 0 \/ tb[tb[root].left].left = 0
     IN IF small
        THEN <<tb, IF f2 = 0 THEN 0 ELSE root, f2, TRUE>>
        ELSE LET pl == tb[p].left
                 pr == tb[p].right
                 \* ---- successor swap (links, not contents)
                 RECURSIVE Leftmost(_, _)
                 Leftmost(t, s) == IF t[s].left = 0 THEN s ELSE Leftmost(t, t[s].left)
                 two == pl # 0 /\ pr # 0
                 s == IF two THEN Leftmost(tb, pr) ELSE 0
                 sw == IF ~two THEN <<tb, root, IF pl # 0 THEN pl ELSE IF pr # 0 THEN pr ELSE p>>
                       ELSE LET c == tb[s].red
                                t0 == [tb EXCEPT ![s].red = tb[p].red, ![p].red = c]
                                sr == t0[s].right
                                pp == t0[p].parent
                                t1 == IF s = pr
                                      THEN [t0 EXCEPT ![p].parent = s, ![s].right = p]
                                      ELSE LET sp == t0[s].parent
                                               u1 == [t0 EXCEPT ![p].parent = sp]
                                               u2 == IF sp # 0
                                                     THEN (IF s = u1[sp].left THEN [u1 EXCEPT ![sp].left = p] ELSE [u1 EXCEPT ![sp].right = p])
                                                     ELSE u1
                                               u3 == [u2 EXCEPT ![s].right = pr]
                                           IN IF pr # 0 THEN [u3 EXCEPT ![pr].parent = s] ELSE u3
                                t2 == [t1 EXCEPT ![p].left = 0, ![p].right = sr]
                                t3 == IF sr # 0 THEN [t2 EXCEPT ![sr].parent = p] ELSE t2
                                t4 == [t3 EXCEPT ![s].left = pl]
                                t5 == IF pl # 0 THEN [t4 EXCEPT ![pl].parent = s] ELSE t4
                                t6 == [t5 EXCEPT ![s].parent = pp]
                                rt6 == IF pp = 0 THEN s ELSE root
                                t7 == IF pp = 0 THEN t6
                                      ELSE IF p = t6[pp].left THEN [t6 EXCEPT ![pp].left = s] ELSE [t6 EXCEPT ![pp].right = s]
                            IN <<t7, rt6, IF sr # 0 THEN sr ELSE p>>
                 t8 == sw[1]
                 rt8 == sw[2]
                 rep == sw[3]
                 \* ---- replacement takes p's place
                 rp == IF rep # p
                       THEN LET pp == t8[p].parent
                                v1 == [t8 EXCEPT ![rep].parent = pp]
                                rt9 == IF pp = 0 THEN rep ELSE rt8
                                v2 == IF pp = 0 THEN v1
                                      ELSE IF p = v1[pp].left THEN [v1 EXCEPT ![pp].left = rep] ELSE [v1 EXCEPT ![pp].right = rep]
                            IN <<[v2 EXCEPT ![p].parent = 0, ![p].right = 0, ![p].left = 0], rt9>>
                       ELSE <<t8, rt8>>
                 bd == IF rp[1][p].red THEN rp ELSE BalanceDeletion(rp[1], rp[2], rep)
                 \* ---- p was a leaf: unlink it now
                 fin == IF p = rep
                        THEN LET pp == bd[1][p].parent IN
                             IF pp # 0
                             THEN LET w1 == IF p = bd[1][pp].left THEN [bd[1] EXCEPT ![pp].left = 0]
                                            ELSE IF p = bd[1][pp].right THEN [bd[1] EXCEPT ![pp].right = 0] ELSE bd[1]
                                  IN [w1 EXCEPT ![p].parent = 0]
                             ELSE bd[1]
                        ELSE bd[1]
             IN <<[fin EXCEPT ![p] = Blank], bd[2], f2, FALSE>>

=============================================================================
