----------------------------- MODULE FlurrySeq -----------------------------
(***************************************************************************)
(* Sequential behaviour of HashMap / HashSet as a generator (spec -> code): *)
(* one thread applies operations of the whole public API (SeqOps) to the   *)
(* abstract map; TLC enumerates / simulates behaviours and prints each as  *)
(* a JSON line  <<"SEQ", ops>>.  The harness replays them into the real     *)
(* crate for several hashers, capacities and both API facades, and         *)
(* Trace_Seq validates every result and observation against SeqOps again.  *)
(***************************************************************************)
EXTENDS SeqOps, Json

CONSTANTS Keys,   \* key ids
          D       \* length of the generated sequences

VARIABLES m, hist, uid
vars == <<m, hist, uid>>

O(op, k, tag, f, n, keys, g, pa) ==
  [op |-> op, k |-> k, tag |-> tag, v |-> uid, pl |-> uid % 4, f |-> f, n |-> n, keys |-> keys, g |-> g, pa |-> pa]

KeySeqs == {<<>>} \cup {<<k>> : k \in Keys} \cup {<<k1, k2>> : k1 \in Keys, k2 \in Keys}

Alphabet ==
  {O(op, k, 0, "-", uid, <<>>, "own", 0) : op \in {"get", "get_key_value", "contains_key", "remove", "remove_entry"}, k \in Keys}
  \cup {O(op, k, tag, "-", uid, <<>>, "own", 0) : op \in {"insert", "try_insert"}, k \in Keys, tag \in {1, 2}}
  \cup {O("compute", k, 0, f, uid, <<>>, "own", pa) : k \in Keys, f \in {"inc", "none", "const"}, pa \in {0, 1}}
  \cup {O(op, 0, 0, "-", 0, <<>>, "own", 0) : op \in {"len", "clear", "iter", "keys", "values", "clone_eq", "debug"}}
  \cup {O("reserve", 0, 0, "-", n, <<>>, "own", 0) : n \in {0, 5, 40}}
  \* (a fault inside retain leaves a state that depends on the iteration order: not generated here)
  \cup {O(op, 0, 0, f, 2, ks, "own", 0) : op \in {"retain", "retain_force"}, f \in {"even", "none", "all", "keep", "plt"},
                                          ks \in {<<>>} \cup {<<k>> : k \in Keys}}
  \cup {O("extend", 0, 2, "-", uid, ks, "own", 0) : ks \in KeySeqs}
  \cup {O("eq_other", 0, 0, "-", 0, ks, "own", 0) : ks \in KeySeqs}
  \cup {O(op, k, 1, "-", uid, <<>>, "foreign", 0) : op \in {"get", "insert", "try_insert", "remove", "clear", "iter"}, k \in {CHOOSE k \in Keys : TRUE}}

Init == m = [k \in Keys |-> Absent] /\ hist = <<>> /\ uid = 100

Next ==
  /\ Len(hist) < D
  /\ \E o \in Alphabet :
       /\ m' = SeqStep(m, o, <<>>, FALSE).m
       /\ hist' = Append(hist, o)
       /\ uid' = uid + 3
Spec == Init /\ [][Next]_vars

\* prints every generated sequence once it is complete
Emit == (Len(hist) = D) => PrintT(<<"SEQ", ToJson(hist)>>)
=============================================================================
