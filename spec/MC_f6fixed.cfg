SPECIFICATION Spec
CONSTANTS
  Threads = {1, 2, 3}
  Prog <- ProgF6
  HashOf <- HashId
  InitKeys <- Init0
  N0 = 1
  DCAP = 1
  MaxNodes = 12
  MaxTabs = 3
  STRIDE = 1
  MAXRES = 100
  STAMPCHECK = TRUE
  ACSTAMPCHECK = TRUE
  TRAVOFF = 0
  RETAINCHECK = TRUE
  TT = 100
  MTC = 100
  UT = 6
  SMIN = 3
  SMAX = 9
  XSKIP = FALSE
  CLRWAIT = TRUE
INVARIANTS Linearizable NoDeadlock ResizeSafe QuiescentOK ReadersNeverBlock IterWeak GhostOK
PROPERTY NeverShrinks
VIEW view
CHECK_DEADLOCK FALSE
