--------------------------- MODULE Trace_RBStep ---------------------------
(***************************************************************************)
(* C06 (and the tree part of C02 / C10): step-level conformance of the     *)
(* real tree bins with the transcribed algorithms.  Input (env TRACES):    *)
(* per sequential run a sequence of events produced by                     *)
(* project.rbstep_projection from the inspector's dumps before and after   *)
(* every operation (nodes renamed to the rank of their key in (hash, key)  *)
(* order, so Less is < on ids):                                            *)
(*  {e:"ins"|"rem"|"same", k, pre, post} - the operation ran on a tree bin *)
(*       `pre`; TLC runs TreeBinOps!InsertOp / RemoveOp from `pre` and the *)
(*       result must equal `post` link for link and colour for colour; a   *)
(*       removal must hand back a list (in traversal order) exactly when   *)
(*       the model's "too small" test says so;                             *)
(*  {e:"build", lst, post} - treeify_bin: post = TreeBin::new(lst);        *)
(*  {e:"split", pre, lo, hi, plo, phi} - a resize split the tree bin into  *)
(*       the sub-lists lo / hi (traversal order kept): <= 6 nodes give a   *)
(*       list in that order, otherwise TreeBin::new of the sub-list, or    *)
(*       the old bin unchanged when the other half is empty.               *)
(***************************************************************************)
EXTENDS Naturals, Sequences, FiniteSets, TLC, Json, IOUtils

MaxId == 128
Ops == INSTANCE TreeBinOps WITH Keys <- 1..MaxId, HashOf <- [k \in 0..MaxId |-> 0], MUT <- 0

Traces == ndJsonDeserialize(IOEnv.TRACES)
Diag == "DIAG" \in DOMAIN IOEnv /\ IOEnv.DIAG = "1"
VARIABLES tr, l
vars == <<tr, l>>
Ev == Traces[tr].ev

IsTree(b) == "root" \in DOMAIN b
IsList(b) == "list" \in DOMAIN b
Ids(t) == {t.nodes[i].n : i \in 1..Len(t.nodes)}
\* heap of the model from a dumped tree
Heap(t) ==
  [id \in 0..MaxId |->
     IF id \in Ids(t)
     THEN LET n == t.nodes[CHOOSE i \in 1..Len(t.nodes) : t.nodes[i].n = id] IN
          [h |-> 0, k |-> id, parent |-> n.parent, left |-> n.left, right |-> n.right,
           red |-> (n.red = 1), prev |-> n.prev, next |-> n.next]
     ELSE Ops!Blank]
\* the model's <<heap, root, first>> equals the dumped tree
Same(h, rt, fst, t) ==
  /\ rt = t.root /\ fst = t.first
  /\ \A i \in 1..Len(t.nodes) :
       LET n == t.nodes[i] m == h[n.n] IN
       /\ m.parent = n.parent /\ m.left = n.left /\ m.right = n.right
       /\ m.red = (n.red = 1) /\ m.prev = n.prev /\ m.next = n.next
  /\ \A id \in 1..MaxId : id \notin Ids(t) => h[id] = Ops!Blank
RECURSIVE ListFrom(_, _, _)
ListFrom(h, x, fuel) == IF x = 0 \/ fuel = 0 THEN <<>> ELSE <<x>> \o ListFrom(h, h[x].next, fuel - 1)
Built(lst) == Ops!BuildFrom(Ops!ListNodes(lst), 0, lst, 1)
\* what a resize makes of one half of a split tree bin
HalfOk(pre, half, other, post) ==
  IF Len(half) = 0 THEN "empty" \in DOMAIN post
  ELSE IF Len(half) <= 6 THEN IsList(post) /\ post.list = half
  ELSE IF Len(other) # 0 THEN IsTree(post) /\ LET b == Built(half) IN Same(b[1], b[2], half[1], post)
  ELSE IsTree(post) /\ post = pre

StepOk(e) ==
  CASE e.e = "ins" ->
         LET r == Ops!InsertOp(Heap(e.pre), e.pre.root, e.pre.first, e.k) IN
         IsTree(e.post) /\ Same(r[1], r[2], r[3], e.post)
    [] e.e = "rem" ->
         LET r == Ops!RemoveOp(Heap(e.pre), e.pre.root, e.pre.first, e.k) IN
         IF r[4] THEN IsList(e.post) /\ e.post.list = ListFrom(r[1], r[3], MaxId)
         ELSE IsTree(e.post) /\ Same(r[1], r[2], r[3], e.post)
    [] e.e = "same" -> e.post = e.pre
    [] e.e = "build" -> LET b == Built(e.lst) IN Same(b[1], b[2], e.lst[1], e.post)
    [] e.e = "split" -> HalfOk(e.pre, e.lo, e.hi, e.plo) /\ HalfOk(e.pre, e.hi, e.lo, e.phi)
    [] OTHER -> FALSE

Init == tr \in 1..Len(Traces) /\ l = 1
Next ==
  /\ l <= Len(Ev)
  /\ l' = l + 1 /\ UNCHANGED tr
  /\ StepOk(Ev[l])
Spec == Init /\ [][Next]_vars
Done == l > Len(Ev)
Report ==
  /\ Done => PrintT(<<"ACCEPT", Traces[tr].id>>)
  /\ Diag => PrintT(<<"AT", Traces[tr].id, l>>)
=============================================================================
