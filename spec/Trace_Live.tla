---------------------------- MODULE Trace_Live ----------------------------
(***************************************************************************)
(* C11: every operation terminates under a fair schedule.  The cooperative *)
(* scheduler makes blocking observable: a run of the real crate ends       *)
(*   Done   - every thread returned from every call,                       *)
(*   Stuck  - every unfinished thread is blocked on a bin mutex that is    *)
(*            held, or parked without a wake-up token (deadlock / lost     *)
(*            wake-up),                                                    *)
(*   Budget - the step budget (orders of magnitude above the need of the   *)
(*            program) ran out under a fair schedule (livelock).           *)
(* Accepted are exactly the runs that end Done with every bin mutex free,  *)
(* every tree-bin lock word 0 and no waiter registered.  The liveness      *)
(* property itself (<>AllDone under weak fairness) is checked on the       *)
(* specifications TreeBinLock.tla / Flurry.tla.                            *)
(***************************************************************************)
EXTENDS Naturals, Sequences, TLC, Json, IOUtils

Traces == ndJsonDeserialize(IOEnv.TRACES)
Diag == "DIAG" \in DOMAIN IOEnv /\ IOEnv.DIAG = "1"
VARIABLES tr, l
vars == <<tr, l>>
Ev == Traces[tr].ev

LiveOk(e) ==
  /\ e.outcome = "Done"
  /\ e.panics = 0
  /\ e.locked = 0       \* bin mutexes still held at the end
  /\ e.treelocked = 0   \* tree bins with a non-zero lock word or a registered waiter

Init == tr \in 1..Len(Traces) /\ l = 1
Next == /\ l <= Len(Ev) /\ l' = l + 1 /\ UNCHANGED tr /\ LiveOk(Ev[l])
Spec == Init /\ [][Next]_vars
Done == l > Len(Ev)
Report ==
  /\ Done => PrintT(<<"ACCEPT", Traces[tr].id>>)
  /\ Diag => PrintT(<<"AT", Traces[tr].id, l>>)
=============================================================================
