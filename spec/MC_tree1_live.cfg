SPECIFICATION LiveSpec
CONSTANTS
  Threads = {1, 2, 3}
  Prog <- ProgTree1
  HashOf <- HashSame
  InitKeys <- Init2
  N0 = 2
  DCAP = 2
  MaxNodes = 24
  MaxTabs = 2
  STRIDE = 4
  MAXRES = 100
  STAMPCHECK = TRUE
  ACSTAMPCHECK = TRUE
  TRAVOFF = 0
  RETAINCHECK = TRUE
  TT = 2
  MTC = 2
  UT = 1
  SMIN = 1
  SMAX = 2
  XSKIP = FALSE
  CLRWAIT = TRUE
INVARIANTS NoDeadlock
PROPERTY Termination
CHECK_DEADLOCK FALSE
