---- MODULE MC_TreeBinLock ----
EXTENDS TreeBinLock
====
