---------------------------- MODULE Trace_Flurry ----------------------------
(***************************************************************************)
(* Step-level conformance of the real crate with Flurry.tla.               *)
(*                                                                         *)
(* Input (env TRACE, one record): a run of the instrumented crate under    *)
(* the cooperative scheduler, projected by project.flurry_projection to    *)
(* the stream of its shared-memory accesses in the order they happened     *)
(* (the scheduler serialises them): every call and return, every load /    *)
(* store / CAS / swap of table, next_table, a bin or a node's next         *)
(* pointer, a value, size_ctl, transfer_index and the count, every bin     *)
(* lock acquisition, and - inside a critical section - the writes and the  *)
(* unlock.  Each event carries the thread, its class, and the values read  *)
(* or written (size_ctl translated to the model's stamp encoding).         *)
(*                                                                         *)
(* The specification's own actions are replayed: the event of thread t is  *)
(* accepted iff the action Flurry!Step(t) takes from pc[t] is of the       *)
(* event's class (Class) and reads / writes the logged values (Post).      *)
(* Actions without a shared access are taken silently for the thread whose *)
(* event is next.  The replay is deterministic: a mismatch means the code  *)
(* took a branch, performed an access, or saw a value the specification    *)
(* does not allow at that point.  All invariants of Flurry.tla are         *)
(* evaluated on the replayed states as well.                               *)
(***************************************************************************)
EXTENDS Flurry, Json, IOUtils

Recs == ndJsonDeserialize(IOEnv.TRACE)
Rec == Recs[1]      \* the constants (program, hash function, initial table) are those of the first record; a file may hold
                    \* several recorded executions of the same job (bounded-exhaustive schedule exploration): variable tr
TrThreads == 1..Rec.nthreads
TrProg == [t \in TrThreads |-> Rec.prog[t]]
TrHash == Rec.hashof
TrInit == Rec.initkeys
TrN0 == Rec.n0
TrMaxNodes == IF "maxnodes" \in DOMAIN Rec THEN Rec.maxnodes ELSE 80
Diag == "DIAG" \in DOMAIN IOEnv /\ IOEnv.DIAG = "1"
IsSetRun == "TRACE" \in DOMAIN IOEnv /\ Rec.set = 1

VARIABLES tr,       \* which record of the file is being replayed
          l,
          slotOf,   \* bin-array slot (address renamed 1,2,..) -> <<table, index>> it was seen to be (<<0,0>> = not yet)
          tntOf,    \* address of a table's own next_table field -> that table (0 = not yet)
          taken     \* labels (pc values) of the specification actions replayed so far (reported for coverage)
tvars == <<vars, tr, l, slotOf, tntOf, taken>>
Ev == Recs[tr].ev

\* the bin (table, index) an action of thread t reads or writes, if any
BinOf(t) ==
  LET p == pc[t]  lc == loc[t] IN
  CASE p \in {"LoadBin", "PutCas"} -> <<lc.tb, BinI(lc.tb, CurOp(t).k)>>
    [] p = "RtLoadBin" -> <<lc.tb, BinI(lc.tb, lc.rk)>>
    [] p \in {"XLoadBin", "XCasFwd", "XStoreFwd"} -> <<lc.xt, lc.i>>
    [] p = "XStoreLo" -> <<lc.nt, lc.i>>
    [] p = "XStoreHi" -> <<lc.nt, lc.i + lc.n>>
    [] p \in {"ClrLoadBin", "ItLoop"} -> <<lc.tb, lc.ix>>
    [] OTHER -> <<0, 0>>

\* class of the shared access the next action of thread t performs ("local" = none)
Class(t) ==
  LET p == pc[t]  lc == loc[t] IN
  CASE p = "idle" -> IF idx[t] <= Len(Prog[t]) THEN "call" ELSE "none"
    [] p = "LoadTable" -> IF CurOp(t).op = "reserve" THEN "ld_cnt" ELSE "ld_table"
    [] p \in {"InitLoadTable", "InitRecheck", "AcLoadTable", "HLoopTable", "PsLoadTable", "PsInitRecheck", "PsRecheck", "ClrWait"} -> "ld_table"
    [] p \in {"InitLoadSc", "AcLoadSc", "HLoadSc", "XLoadScLeave", "PsLoadSc"} -> "ld_sc"
    [] p \in {"PsCasInit", "PsCasStart"} -> "cas_sc"
    [] p \in {"PsInitRestore", "PsInitStoreSc"} -> "st_sc"
    [] p = "PsInitSwap" -> "swap_table"
    [] p = "InitSpin" -> "spin"
    [] p \in {"InitCasSc", "AcCasJoin", "AcCasStart", "HCasJoin", "XCasLeave"} -> "cas_sc"
    [] p = "InitStoreTable" -> "st_table"
    [] p \in {"InitStoreSc", "XStoreSc"} -> "st_sc"
    [] p \in {"LoadBin", "XLoadBin", "RtLoadBin"} -> "ld_b"
    [] p = "RtLoadTable" -> "ld_table"
    [] p = "RtReval" ->
         LET k == lc.rk  tb == lc.tb  i == BinI(tb, k) IN
         IF tabs[tb].bins[i] # lc.b THEN "unlock"
         ELSE LET f == FindIn(lc.b, NULL, k, 0) IN
              IF f[1] = NULL \/ (CurOp(t).op = "retain" /\ RETAINCHECK /\ node[f[1]].val # lc.ov) THEN "unlock"
              ELSE IF f[2] = NULL THEN "st_b" ELSE "st_n"
    [] p \in {"GetFwd", "HLoadNt", "ItDescend"} -> "ld_tnt"
    [] p \in {"PutCas", "XCasFwd"} -> "cas_b"
    [] p \in {"TiFast", "LoadVal"} -> "ld_val"
    \* a set's iterator is the map's keys(): it hands out the key without loading the value
    [] p = "ItYield" -> IF IsSetRun /\ CurOp(t).op = "iter" THEN "local" ELSE "ld_val"
    [] p = "TfLoadBin" -> "ld_b"
    [] p = "TfLock" -> "lock"
    [] p = "TfReval" -> IF tabs[lc.tb].bins[BinI(lc.tb, CurOp(t).k)] # lc.b THEN "unlock" ELSE "st_b"
    [] p = "Walk" -> IF lc.p = NULL \/ node[lc.p].key = CurOp(t).k THEN "local" ELSE "ld_n"
    [] p \in {"Lock", "XLock", "ClrLock", "RtLock"} -> "lock"
    [] p = "Reval" ->
         LET o == CurOp(t)  tb == lc.tb  i == BinI(tb, o.k) IN
         IF tabs[tb].bins[i] # lc.b THEN "unlock"
         ELSE LET f == FindIn(lc.b, NULL, o.k, 0)  hit == f[1]  unl == IF f[2] = NULL THEN "st_b" ELSE "st_n" IN
              CASE o.op = "insert" -> IF hit # NULL THEN "swap_val" ELSE "st_n"
                [] o.op = "try_insert" -> IF hit # NULL THEN "unlock" ELSE "st_n"
                [] o.op = "compute" -> IF hit = NULL THEN "unlock" ELSE IF o.f # "none" THEN "swap_val" ELSE unl
                [] OTHER -> IF hit = NULL THEN "unlock" ELSE unl
    [] p = "ClrReval" -> IF tabs[lc.tb].bins[lc.ix] # lc.b THEN "unlock" ELSE "st_b"
    [] p = "XReval" -> IF tabs[lc.xt].bins[lc.i] # lc.b THEN "unlock" ELSE "local"
    [] p \in {"XStoreLo", "XStoreHi", "XStoreFwd"} -> "st_b"
    [] p = "AcFetch" -> "add_cnt"
    [] p = "AcReload" -> "ld_cnt"
    [] p \in {"AcLoadNt", "HLoopNt", "XLoadNt"} -> "ld_nt"
    [] p \in {"AcLoadTi", "HLoadTi"} -> "ld_ti"
    [] p = "XClaim" -> IF ~lc.adv \/ lc.i - 1 >= lc.bound \/ lc.fin THEN "local" ELSE "ld_ti"
    [] p = "XCasTi" -> "cas_ti"
    [] p \in {"XCheck", "XAdv", "HExitA"} -> "local"
    [] p = "XSwapNext" -> "swap_nt"
    [] p = "XStoreTi" -> "st_ti"
    [] p = "XClearNext" -> "st_nt"
    [] p = "XSwapTable" -> "swap_table"
    [] p = "ClrLoadBin" -> IF lc.ix >= TLen(lc.tb) THEN "local" ELSE "ld_b"
    [] p = "ItNext" -> IF lc.prev = NULL THEN "local" ELSE "ld_n"
    [] p = "ItLoop" -> IF lc.e # NULL \/ lc.bi >= lc.bl \/ lc.tb = 0 \/ TLen(lc.tb) <= lc.ix THEN "local" ELSE "ld_b"
    [] OTHER -> "unknown"

\* the bin value read by a bin-reading action (NULL / FWD / node), for the null test
BinVal(t) == LET b == BinOf(t) IN IF b[1] = 0 THEN -2 ELSE tabs[b[1]].bins[b[2]]

\* logged values agree with what the action read / wrote (primed = after the action)
Post(e, t) ==
  CASE e.c = "call" -> e.op = CurOp(t).op /\ e.k = CurOp(t).k
    [] e.c = "ld_sc" -> e.cur = sizeCtl
    [] e.c = "cas_sc" -> e.cur = sizeCtl /\ (e.ok = 1 <=> sizeCtl' # sizeCtl) /\ (e.ok = 1 => e.y = sizeCtl')
    [] e.c = "st_sc" -> e.x = sizeCtl'
    [] e.c = "ld_ti" -> e.cur = transferIndex
    [] e.c = "cas_ti" -> e.cur = transferIndex /\ (e.ok = 1 <=> transferIndex' # transferIndex) /\ (e.ok = 1 => e.y = transferIndex')
    [] e.c = "st_ti" -> e.x = transferIndex'
    [] e.c = "ld_cnt" -> e.cur = count
    [] e.c = "add_cnt" -> e.cur = count /\ count' = count + e.x
    [] e.c = "ld_table" -> (e.nil = 1) <=> (table = 0)
    [] e.c = "ld_nt" -> (e.nil = 1) <=> (nextTable = 0)
    [] e.c = "ld_b" -> (BinOf(t)[1] # 0) => ((e.nil = 1) <=> (BinVal(t) = NULL))
    [] e.c = "cas_b" -> (e.ok = 1) <=> (tabs' # tabs)
    [] e.c = "st_b" -> (pc[t] \in {"XStoreLo", "XStoreHi"}) => ((e.nil = 1) <=> (tabs'[BinOf(t)[1]].bins[BinOf(t)[2]] = NULL))
    [] OTHER -> TRUE

\* a logged result against the result the specification recorded for the thread's last operation
RetOk(e, t) ==
  LET o == <<t, idx[t] - 1>>  op == Prog[t][idx[t] - 1] IN
  /\ idx[t] > 1 /\ o \in DOMAIN res
  /\ Matches(op, [ok |-> e.ok, v |-> e.v, tag |-> e.tag, ni |-> e.ni, seen |-> e.seen, pl |-> e.pl], res[o], IsSetRun)

\* the same address is always the same slot of the same table, and different addresses are different slots
SlotOk(e, t) ==
  LET want == BinOf(t) IN
  IF want[1] = 0 \/ "s" \notin DOMAIN e THEN UNCHANGED slotOf
  ELSE /\ slotOf[e.s] \in {<<0, 0>>, want}
       /\ \A s2 \in DOMAIN slotOf : s2 # e.s => slotOf[s2] # want
       /\ slotOf' = [slotOf EXCEPT ![e.s] = want]
TntOk(e, t) ==
  IF pc[t] \notin {"GetFwd", "HLoadNt", "ItDescend"} \/ "s" \notin DOMAIN e THEN UNCHANGED tntOf
  ELSE LET want == loc[t].tb IN
       /\ tntOf[e.s] \in {0, want}
       /\ \A s2 \in DOMAIN tntOf : s2 # e.s => tntOf[s2] # want
       /\ tntOf' = [tntOf EXCEPT ![e.s] = want]

TInit ==
  /\ Init /\ tr \in 1..Len(Recs) /\ l = 1 /\ taken = {}
  /\ slotOf = [i \in 1..Recs[tr].nslots |-> <<0, 0>>] /\ tntOf = [i \in 1..Recs[tr].ntnts |-> 0]
E == Ev[l]
TNext ==
  /\ l <= Len(Ev) /\ UNCHANGED tr
  /\ LET t == E.t IN
     \/ /\ Class(t) = "local" /\ Step(t) /\ UNCHANGED <<l, slotOf, tntOf>> /\ taken' = taken \cup {pc[t]}
     \/ /\ E.c = "ret" /\ pc[t] = "idle" /\ RetOk(E, t) /\ l' = l + 1 /\ UNCHANGED <<vars, slotOf, tntOf, taken>>
     \* an unlock the specification folded into the action of the critical section's write
     \/ /\ E.c = "unlock" /\ Class(t) \notin {"unlock", "local"} /\ l' = l + 1 /\ UNCHANGED <<vars, slotOf, tntOf, taken>>
     \* the yield between two looks at self.table in clear()'s wait for the resize to be published
     \/ /\ E.c = "spin" /\ pc[t] = "ClrWait" /\ l' = l + 1 /\ UNCHANGED <<vars, slotOf, tntOf, taken>>
     \* get_moved's read of the old table's next_table field where the specification has no step
     \/ /\ E.c = "ld_tnt" /\ Class(t) \notin {"ld_tnt", "local"} /\ l' = l + 1 /\ UNCHANGED <<vars, slotOf, tntOf, taken>>
     \/ /\ E.c \notin {"ret"} /\ Class(t) = E.c /\ l' = l + 1 /\ Step(t) /\ Post(E, t)
        /\ IF E.c \in {"ld_b", "cas_b", "st_b"} THEN SlotOk(E, t) ELSE UNCHANGED slotOf
        /\ IF E.c = "ld_tnt" THEN TntOk(E, t) ELSE UNCHANGED tntOf
        /\ taken' = taken \cup {IF pc[t] = "LoadTable" THEN "LoadTable:" \o CurOp(t).op ELSE pc[t]}
TSpec == TInit /\ [][TNext]_tvars

Done == l > Len(Ev)
Report ==
  /\ Done => PrintT(<<"ACCEPT", Recs[tr].id>>) /\ PrintT(<<"TAKEN", taken>>)
  /\ Diag => PrintT(<<"AT", l, IF l <= Len(Ev) THEN <<E.t, E.c, pc[E.t], Class(E.t)>> ELSE <<>>>>)
\* the replayed states satisfy the specification's invariants (those that do not need a finished run)
TraceInv == ResizeSafe /\ (Done => (QuiescentOK /\ GhostOK)) /\ IterWeak /\ RetainOK
=============================================================================
