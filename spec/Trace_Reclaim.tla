-------------------------- MODULE Trace_Reclaim --------------------------
(***************************************************************************)
(* C03 / C04: object life cycle.  Monitor over the reclamation events      *)
(* recorded from the real crate:                                           *)
(*   genter(g) / gleave(g)   a guard of the map's collector is created /   *)
(*                           released by the harness                       *)
(*   retire(o, reach)        o is handed to the collector; reach = 1 iff   *)
(*                           the inspector still found o reachable from    *)
(*                           the map's roots at that moment                *)
(*   free(o)                 the allocator saw o's block being freed       *)
(*   uaf / bad               a hook announced an access inside a freed     *)
(*                           block / a key or value instance was used      *)
(*                           after its drop or dropped twice               *)
(*   canary(bad)             at a guard's release: number of references    *)
(*                           handed out under it that no longer hold       *)
(*   end(...)                after map and collector were dropped          *)
(* Life cycle per object: live -> retired(P) -> freed, with P the guards   *)
(* live at the retirement; free requires P to have been released.          *)
(* `proto` = 1 iff the job's collector runs without epoch filtering, so    *)
(* that every live guard protects (Reclaim.tla's model of seize).          *)
(***************************************************************************)
EXTENDS Naturals, Sequences, FiniteSets, TLC, Json, IOUtils

Traces == ndJsonDeserialize(IOEnv.TRACES)
Diag == "DIAG" \in DOMAIN IOEnv /\ IOEnv.DIAG = "1"

VARIABLES tr, l, guards, ret, freed
vars == <<tr, l, guards, ret, freed>>
Ev == Traces[tr].ev
Proto == Traces[tr].proto = 1
E == Ev[l]

Init == tr \in 1..Len(Traces) /\ l = 1 /\ guards = {} /\ ret = <<>> /\ freed = {}
Step(c) == l <= Len(Ev) /\ l' = l + 1 /\ UNCHANGED tr /\ c

GEnter == Step(E.e = "genter") /\ guards' = guards \cup {E.g} /\ UNCHANGED <<ret, freed>>
GLeave == Step(E.e = "gleave") /\ guards' = guards \ {E.g} /\ UNCHANGED <<ret, freed>>

\* unlink first, retire afterwards; never retire twice; never retire what was freed
Retire ==
  Step(E.e = "retire" /\ E.o \notin DOMAIN ret /\ E.o \notin freed /\ E.reach = 0)
  /\ ret' = (E.o :> guards) @@ ret
  /\ UNCHANGED <<guards, freed>>

\* freed at most once; a retired object only after every guard live at its retirement left
Free ==
  Step(E.e = "free" /\ E.o \notin freed
       /\ ((Proto /\ E.o \in DOMAIN ret) => ret[E.o] \cap guards = {}))
  /\ freed' = freed \cup {E.o}
  /\ UNCHANGED <<guards, ret>>

\* a reference handed out under a guard holds until the guard is released
Canary == Step(E.e = "canary" /\ E.bad = 0) /\ UNCHANGED <<guards, ret, freed>>

\* after teardown: nothing touched freed memory, every key/value instance dropped exactly once,
\* no tracked block of the map left allocated
End ==
  Step(E.e = "end" /\ E.uaf = 0 /\ E.corrupted = 0 /\ E.dfree = 0 /\ E.lviol = 0
       /\ E.alive = 0 /\ E.live = 0 /\ E.dropok = 1)
  /\ UNCHANGED <<guards, ret, freed>>

\* "uaf" and "bad" events have no action: a trace containing one is rejected at that event
Next == GEnter \/ GLeave \/ Retire \/ Free \/ Canary \/ End
Spec == Init /\ [][Next]_vars
Done == l > Len(Ev)
Report ==
  /\ Done => PrintT(<<"ACCEPT", Traces[tr].id>>)
  /\ Diag => PrintT(<<"AT", Traces[tr].id, l>>)
=============================================================================
