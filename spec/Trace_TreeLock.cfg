SPECIFICATION Spec
CONSTRAINT Report
CHECK_DEADLOCK FALSE
