------------------------------ MODULE TreeBinRB ------------------------------
(***************************************************************************)
(* The red-black algorithms of flurry's tree bins (src/node.rs),           *)
(* transcribed statement by statement over a heap of tree nodes            *)
(*   T : Id -> [h, k, parent, left, right, red, prev, next]   (0 = null)   *)
(* plus the bin's `root` and `first`:                                      *)
(*   TreeBin::new            (build from a node list, as treeify_bin and   *)
(*                            the resize split hand it over)               *)
(*   find_or_put_tree_val    (descent by hash then key, link at the head   *)
(*                            of the traversal list, balance_insertion)    *)
(*   remove_tree_node        (unlink from the list; "too small" test on    *)
(*                            root.right / root.left / root.left.left;     *)
(*                            successor *link* swap; balance_deletion)     *)
(*   rotate_left / rotate_right / balance_insertion / balance_deletion     *)
(*   find_tree_node          (ordered descent used by lookups)             *)
(* TLC explores every sequence of insertions and removals over Keys from   *)
(* every initial list in InitLists until the bin reports "too small".      *)
(* The invariants are the ones Trace_RB evaluates on the real structure.   *)
(***************************************************************************)
EXTENDS TreeBinOps

CONSTANTS InitLists,  \* set of sequences of keys: the lists handed to TreeBin::new
          TREEONLY    \* explore the tree part alone

VARIABLES T, root, first, present, dead
vars == <<T, root, first, present, dead>>

Init ==
  \E lst \in InitLists :
    LET b == BuildFrom(ListNodes(lst), 0, lst, 1) IN
    /\ T = (IF TREEONLY THEN [id \in DOMAIN b[1] |-> [b[1][id] EXCEPT !.prev = 0, !.next = 0]] ELSE b[1])
    /\ root = b[2] /\ first = (IF TREEONLY THEN 0 ELSE lst[1])
    /\ present = {lst[i] : i \in 1..Len(lst)} /\ dead = FALSE

\* TREEONLY = TRUE explores the tree part alone (the traversal list and the tree algorithms do not influence each other):
\* the list fields are kept at 0, so the state space is that of the tree shapes.  (A VIEW would do the same, but TLC 1.8
\* fails to write un-fingerprinted function values to its disk queue once the queue spills.)
Strip(t) == [id \in DOMAIN t |-> [t[id] EXCEPT !.prev = 0, !.next = 0]]
Insert(k) ==
  /\ ~dead /\ k \notin present /\ root # 0
  /\ LET r == InsertOp(T, root, first, k) IN
     /\ T' = (IF TREEONLY THEN Strip(r[1]) ELSE r[1]) /\ root' = r[2] /\ first' = (IF TREEONLY THEN 0 ELSE r[3])
  /\ present' = present \cup {k} /\ UNCHANGED dead
Remove(p) ==
  /\ ~dead /\ p \in present
  /\ LET \* (tree only: give p a successor in the absent list, so that "the list became empty" is answered from `present`)
         other == IF present = {p} THEN 0 ELSE CHOOSE q \in present : q # p
         tin == IF TREEONLY THEN [T EXCEPT ![p].next = other] ELSE T
         r == RemoveOp(tin, root, IF TREEONLY THEN p ELSE first, p) IN
     /\ T' = (IF TREEONLY THEN Strip(r[1]) ELSE r[1]) /\ root' = r[2] /\ first' = (IF TREEONLY THEN 0 ELSE r[3]) /\ dead' = r[4]
  /\ present' = present \ {p}

Next == \E k \in Keys : Insert(k) \/ Remove(k)
Spec == Init /\ [][Next]_vars

(* ---- invariants (the ones Trace_RB evaluates on the real structure) ---------------- *)
RECURSIVE InOrder(_, _)
InOrder(t, x) == IF x = 0 THEN <<>> ELSE InOrder(t, t[x].left) \o <<x>> \o InOrder(t, t[x].right)
RECURSIVE ListFrom(_, _, _)
ListFrom(t, x, fuel) == IF x = 0 \/ fuel = 0 THEN <<>> ELSE <<x>> \o ListFrom(t, t[x].next, fuel - 1)
RECURSIVE BlackHeight(_, _)
BlackHeight(t, x) ==
  IF x = 0 THEN 1
  ELSE LET hl == BlackHeight(t, t[x].left)  hr == BlackHeight(t, t[x].right) IN
       IF hl = 0 \/ hr = 0 \/ hl # hr THEN 0 ELSE hl + (IF t[x].red THEN 0 ELSE 1)
SeqSet(s) == {s[i] : i \in 1..Len(s)}
CeilLog2(n) == CHOOSE i \in 0..40 : 2^i >= n /\ (i = 0 \/ 2^(i - 1) < n)

RBInvariants ==
  ~dead =>
  LET io == InOrder(T, root)
      ls == ListFrom(T, first, Cardinality(Keys) + 1)
  IN
  /\ SeqSet(io) = present /\ Len(io) = Cardinality(present)          \* tree set = present keys
  /\ (~TREEONLY => (SeqSet(ls) = present /\ Len(ls) = Cardinality(present)))   \* list set = present keys
  /\ root # 0 /\ T[root].parent = 0 /\ ~T[root].red
  /\ \A i \in 1..(Len(io) - 1) : Less(io[i], io[i + 1])              \* ordered by (hash, key)
  /\ \A x \in present :
       /\ T[x].left # 0 => T[T[x].left].parent = x
       /\ T[x].right # 0 => T[T[x].right].parent = x
       /\ T[x].red => (~IsRed(T, T[x].left) /\ ~IsRed(T, T[x].right))
       /\ T[x].next # 0 => T[T[x].next].prev = x
       /\ T[x].prev # 0 => T[T[x].prev].next = x
  /\ (~TREEONLY => T[first].prev = 0)
  /\ BlackHeight(T, root) # 0
LookupsOK ==
  ~dead => \A k \in Keys :
     LET f == FindFrom(T, root, k, 0) IN
     /\ (k \in present <=> f[1] = k)
     /\ (Cardinality(present) >= 8 => f[2] <= 4 * CeilLog2(Cardinality(present) + 1) + 2)
\* "too small" is answered only for bins of at most 9 remaining entries.  (The comment inherited from the
\* JDK says "between 2 and 6 nodes"; TLC finds the real bound: a red root.right with two black children
\* that have red children gives a valid 10-node tree whose root.left.left is null.  The bound is what
\* keeps a bin that was turned back into a list from being long.)
TooSmallOnlyWhenSmall == dead => Cardinality(present) <= 9
=============================================================================
