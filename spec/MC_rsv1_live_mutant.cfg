SPECIFICATION LiveSpec
CONSTANTS
  PsCasInit <- PsCasInitWrong
  Threads = {1, 2, 3}
  Prog <- ProgRsv1
  HashOf <- HashId
  InitKeys <- Init0
  N0 = 0
  DCAP = 2
  MaxNodes = 6
  MaxTabs = 2
  STRIDE = 2
  MAXRES = 100
  STAMPCHECK = TRUE
  ACSTAMPCHECK = TRUE
  TRAVOFF = 0
  RETAINCHECK = TRUE
  TT = 100
  MTC = 100
  UT = 6
  SMIN = 3
  SMAX = 9
  XSKIP = FALSE
  CLRWAIT = TRUE
INVARIANTS NoDeadlock
PROPERTY Termination
CHECK_DEADLOCK FALSE
