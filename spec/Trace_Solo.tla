---------------------------- MODULE Trace_Solo ----------------------------
(***************************************************************************)
(* C12: reads never block and never take locks.  A probe freezes all       *)
(* writers at an arbitrary yield point (inside bin critical sections,      *)
(* tree restructuring, bin migration) and runs one reader alone.  The      *)
(* recorded probe must show: the reader finished, by its own steps only,   *)
(* without announcing a lock acquisition, a park or a spin-wait, within a  *)
(* generous bound B of steps that depends only on the size of the          *)
(* structure (B is the same operator as in Flurry.tla's ReadersSolo).      *)
(***************************************************************************)
EXTENDS Naturals, Sequences, TLC, Json, IOUtils

Traces == ndJsonDeserialize(IOEnv.TRACES)
Diag == "DIAG" \in DOMAIN IOEnv /\ IOEnv.DIAG = "1"
VARIABLES tr, l
vars == <<tr, l>>
Ev == Traces[tr].ev

\* generous: boundedness and absence of waiting are the property, not a step count
B(nodes, bins, nops) == 100 + 40 * nops + 12 * (nodes + bins) * nops

SoloOk(e) ==
  /\ e.done = 1
  /\ e.locks = 0 /\ e.parks = 0 /\ e.spins = 0
  /\ e.reader_steps <= B(e.nodes, e.bins, e.nops)

Init == tr \in 1..Len(Traces) /\ l = 1
Next == /\ l <= Len(Ev) /\ l' = l + 1 /\ UNCHANGED tr /\ SoloOk(Ev[l])
Spec == Init /\ [][Next]_vars
Done == l > Len(Ev)
Report ==
  /\ Done => PrintT(<<"ACCEPT", Traces[tr].id>>)
  /\ Diag => PrintT(<<"AT", Traces[tr].id, l>>)
=============================================================================
