SPECIFICATION LiveSpec
CONSTANTS
  Threads = {1, 2, 3}
  Prog <- ProgRt1
  HashOf <- HashSame
  InitKeys <- Init3
  N0 = 4
  DCAP = 2
  MaxNodes = 8
  MaxTabs = 1
  STRIDE = 1
  MAXRES = 100
  STAMPCHECK = TRUE
  ACSTAMPCHECK = TRUE
  TRAVOFF = 0
  RETAINCHECK = TRUE
  TT = 100
  MTC = 100
  UT = 6
  SMIN = 3
  SMAX = 9
  XSKIP = FALSE
  CLRWAIT = TRUE
INVARIANTS NoDeadlock
PROPERTY Termination
CHECK_DEADLOCK FALSE
