CONSTANTS
  MUT = 0
  NK = 12
  Keys <- MCKeys
  HashOf <- MCHash
  InitLists <- MCInit
SPECIFICATION Spec
VIEW TreeView
INVARIANTS RBInvariants LookupsOK TooSmallOnlyWhenSmall
CHECK_DEADLOCK FALSE
