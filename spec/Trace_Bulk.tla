---------------------------- MODULE Trace_Bulk ----------------------------
(***************************************************************************)
(* C19 (and the sequential-fold part of C02 for collect / extend): bulk    *)
(* construction paths.  One event per executed bulk operation:             *)
(*   {how, entries, raw, outcome, items, orig, eq, len}                    *)
(* FromDoc(entries) is a fold of inserts or an error, never a panic;       *)
(* Serialize o Deserialize = id; ParExtend(items) = some interleaving of   *)
(* the inserts (key set exact, every value one of those supplied for its   *)
(* key); collect / extend from a sequential iterator = the fold of inserts *)
(* in order (first key instance kept, last value wins).                    *)
(***************************************************************************)
EXTENDS Naturals, Integers, Sequences, FiniteSets, TLC, Json, IOUtils

Traces == ndJsonDeserialize(IOEnv.TRACES)
Diag == "DIAG" \in DOMAIN IOEnv /\ IOEnv.DIAG = "1"
VARIABLES tr, l
vars == <<tr, l>>
Ev == Traces[tr].ev
SeqToSet(s) == {s[i] : i \in 1..Len(s)}

KeysOf(es) == {es[i][1] : i \in 1..Len(es)}
ValsFor(es, k) == {es[i][2] : i \in {j \in 1..Len(es) : es[j][1] = k}}
NoDupKeys(items) == \A i, j \in 1..Len(items) : i # j => items[i][1] # items[j][1]
HasDup(es) == \E i, j \in 1..Len(es) : i # j /\ es[i][1] = es[j][1]
First(es, k) == CHOOSE i \in 1..Len(es) : es[i][1] = k /\ \A j \in 1..(i - 1) : es[j][1] # k
Last(es, k) == CHOOSE i \in 1..Len(es) : es[i][1] = k /\ \A j \in (i + 1)..Len(es) : es[j][1] # k

\* key set exact, each value one of those supplied for its key
SomeInterleaving(e) ==
  /\ NoDupKeys(e.items)
  /\ {e.items[i][1] : i \in 1..Len(e.items)} = KeysOf(e.entries)
  /\ \A i \in 1..Len(e.items) : e.items[i][2] \in ValsFor(e.entries, e.items[i][1])

\* extending a collection that already holds `pre`: keys of both; a key among the new items maps
\* to one of the values supplied for it (insertion replaces), any other key keeps its old value
ExtendOk(e) ==
  /\ NoDupKeys(e.items)
  /\ {e.items[i][1] : i \in 1..Len(e.items)} = KeysOf(e.entries) \cup KeysOf(e.pre)
  /\ \A i \in 1..Len(e.items) :
       LET k == e.items[i][1] IN
       IF k \in KeysOf(e.entries) THEN e.items[i][2] \in ValsFor(e.entries, k)
       ELSE e.items[i][2] = e.pre[Last(e.pre, k)][2]

SetContents(e) ==
  /\ NoDupKeys(e.items)
  /\ {e.items[i][1] : i \in 1..Len(e.items)} = KeysOf(e.entries)

\* entries <<k, tag, uid, pl>>: sequential fold of inserts
FoldMap(es) == {<<k, es[First(es, k)][2], es[Last(es, k)][3]>> : k \in KeysOf(es)}
FoldSet(es) == {<<k, es[First(es, k)][2], 1>> : k \in KeysOf(es)}

BulkOk(e) ==
  /\ e.outcome # "panic"                                     \* never panics
  /\ e.outcome \in {"ok", "err"}
  /\ CASE e.how \in {"serde_map", "value_map", "serde_zmap"} ->
            /\ (e.raw = 0 /\ ~HasDup(e.entries)) => e.outcome = "ok"
            /\ (e.raw = 0 /\ e.outcome = "ok") => SomeInterleaving(e)
       [] e.how \in {"serde_set", "value_set", "serde_zset"} ->
            /\ (e.raw = 0) => e.outcome = "ok" /\ SetContents(e)
       [] e.how \in {"roundtrip_map", "roundtrip_set"} ->
            /\ e.outcome = "ok" /\ e.eq = 1 /\ e.items = e.orig
            /\ IF e.how = "roundtrip_map" THEN SomeInterleaving(e) ELSE SetContents(e)
       [] e.how \in {"par_extend_map", "from_par_iter_map", "par_extend_mapref"} ->
            e.outcome = "ok" /\ ExtendOk(e) /\ e.len = Cardinality(KeysOf(e.entries) \cup KeysOf(e.pre))
       [] e.how \in {"par_extend_set", "from_par_iter_set"} ->
            /\ e.outcome = "ok" /\ NoDupKeys(e.items)
            /\ {e.items[i][1] : i \in 1..Len(e.items)} = KeysOf(e.entries) \cup KeysOf(e.pre)
            /\ e.len = Cardinality(KeysOf(e.entries) \cup KeysOf(e.pre))
       [] e.how \in {"collect_map", "extend_map"} ->
            /\ e.outcome = "ok" /\ Len(e.items) = Cardinality(KeysOf(e.entries))
            /\ SeqToSet(e.items) = FoldMap(e.entries) /\ e.len = Len(e.items)
       [] e.how = "collect_set" ->
            /\ e.outcome = "ok" /\ Len(e.items) = Cardinality(KeysOf(e.entries))
            /\ SeqToSet(e.items) = FoldSet(e.entries) /\ e.len = Len(e.items)
       [] OTHER -> FALSE

Init == tr \in 1..Len(Traces) /\ l = 1
Next == /\ l <= Len(Ev) /\ l' = l + 1 /\ UNCHANGED tr /\ BulkOk(Ev[l])
Spec == Init /\ [][Next]_vars
Done == l > Len(Ev)
Report ==
  /\ Done => PrintT(<<"ACCEPT", Traces[tr].id>>)
  /\ Diag => PrintT(<<"AT", Traces[tr].id, l>>)
=============================================================================
