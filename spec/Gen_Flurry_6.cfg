SPECIFICATION GSpec
CONSTANTS
  Threads = {1, 2, 3, 4}
  Prog <- GProg6
  HashOf <- GHash
  InitKeys <- GInit1
  N0 = 2
  DCAP = 16
  MaxNodes = 60
  MaxTabs = 6
  STRIDE = 16
  MAXRES = 999
  STAMPCHECK = TRUE
  ACSTAMPCHECK = TRUE
  TRAVOFF = 0
  RETAINCHECK = TRUE
  TT = 8
  MTC = 64
  UT = 6
  SMIN = 3
  SMAX = 9
  XSKIP = FALSE
  CLRWAIT = TRUE
INVARIANT Emit
CHECK_DEADLOCK FALSE
