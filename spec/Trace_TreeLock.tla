--------------------------- MODULE Trace_TreeLock ---------------------------
(***************************************************************************)
(* Step-level conformance of the tree bins' read-write lock with           *)
(* TreeBinLock.tla (C11, C12, C01): the recorded accesses to every tree    *)
(* bin's lock word and waiter slot, and the park / unpark calls, in the    *)
(* order they happened, are replayed against the protocol.  Bins and       *)
(* threads are renamed 1..; events:                                        *)
(*   ld(t,b,cur)  cas(t,b,x,y,ok,cur)  st(t,b,x)  add(t,b,x,cur)           *)
(*   wswap(t,b,new)  wload(t,b,cur)  park(t)  unpark(t,u)                  *)
(* The conditions are those of the actions of TreeBinLock.tla:             *)
(*   writer CAS (y = WRITER) only from a word without readers and writer   *)
(*     (x & ~WAITER = 0)                      [LockRootCas, ContCasWriter] *)
(*   waiter CAS (y = x | WAITER) only when readers are inside and no       *)
(*     waiter is registered; the slot is published next    [ContCasWaiter, *)
(*     ContSwapWaiter]; the slot is cleared after a waiting writer got the *)
(*     lock [ContClearWaiter]                                              *)
(*   park only by the registered waiter whose last look at the word saw    *)
(*     WAITER and readers                                       [ContPark] *)
(*   unlock = store 0 by the holder                                 [Hold] *)
(*   reader CAS (y = x + READER) only from the value it just loaded and    *)
(*     only without WAITER / WRITER           [FindLoadState, FindCasReader]*)
(*   reader release fetch_add(-READER); the reader that drops the word from*)
(*     READER|WAITER loads the slot next and unparks the thread it finds   *)
(*     there before doing anything else (no lost wake-up)                  *)
(*                             [FindRelease, FindLoadWaiter, FindUnpark]   *)
(*   every value read equals the word the protocol has at that point; CAS  *)
(*     outcomes agree; no reader is inside while WRITER is set     [Mutex] *)
(***************************************************************************)
EXTENDS Integers, Sequences, FiniteSets, TLC, Json, IOUtils

Traces == ndJsonDeserialize(IOEnv.TRACES)
Diag == "DIAG" \in DOMAIN IOEnv /\ IOEnv.DIAG = "1"
WRITER == 1
WAITER == 2
READER == 4
HasWW(s) == (s % 4) # 0
HasWaiter(s) == (s \div 2) % 2 = 1
HasWriter(s) == s % 2 = 1
MaskWaiter(s) == IF HasWaiter(s) THEN s - WAITER ELSE s

VARIABLES tr, l,
          st,      \* bin -> lock word
          wtr,     \* bin -> registered waiter (0 = none)
          holder,  \* bin -> thread holding WRITER (0 = none)
          waiting, \* bin -> thread that set WAITER and has not got the lock yet (0 = none)
          seen,    \* <<bin, thread>> -> the word the thread loaded last (-1 = nothing pending)
          inside,  \* bin -> set of threads inside the tree as readers
          duty     \* thread -> <<"none">> | <<"load", b>> | <<"unpark", u>> : what a releasing reader must do next
vars == <<tr, l, st, wtr, holder, waiting, seen, inside, duty>>
Rec == Traces[tr]
Ev == Rec.ev
Bins == 1..Rec.nbins
Thr == 1..Rec.nthreads

Init ==
  /\ tr \in 1..Len(Traces) /\ l = 1
  /\ st = [b \in 1..Traces[tr].nbins |-> 0] /\ wtr = [b \in 1..Traces[tr].nbins |-> 0]
  /\ holder = [b \in 1..Traces[tr].nbins |-> 0] /\ waiting = [b \in 1..Traces[tr].nbins |-> 0]
  /\ seen = [p \in (1..Traces[tr].nbins) \X (1..Traces[tr].nthreads) |-> -1]
  /\ inside = [b \in 1..Traces[tr].nbins |-> {}]
  /\ duty = [t \in 1..Traces[tr].nthreads |-> <<"none">>]

E == Ev[l]
Adv == l <= Len(Ev) /\ l' = l + 1 /\ UNCHANGED tr
Free(t) == duty[t] = <<"none">>

EvLd ==
  /\ Adv /\ E.e = "ld" /\ Free(E.t)
  /\ E.cur = st[E.b]
  /\ seen' = [seen EXCEPT ![<<E.b, E.t>>] = E.cur]
  /\ UNCHANGED <<st, wtr, holder, waiting, inside, duty>>

EvCas ==
  /\ Adv /\ E.e = "cas" /\ Free(E.t)
  /\ E.cur = st[E.b] /\ (E.ok = 1) <=> (st[E.b] = E.x)
  /\ CASE E.y = WRITER ->
            \* writer: only from a word with neither readers nor a writer; by the thread that waits, if one does
            /\ MaskWaiter(E.x) = 0
            /\ (waiting[E.b] # 0 => waiting[E.b] = E.t)
            /\ IF E.ok = 1
               THEN /\ st' = [st EXCEPT ![E.b] = WRITER] /\ holder' = [holder EXCEPT ![E.b] = E.t]
                    /\ inside[E.b] = {} /\ holder[E.b] = 0
               ELSE UNCHANGED <<st, holder>>
            /\ UNCHANGED <<waiting, inside>>
       [] E.y = E.x + WAITER ->
            \* register as the waiter: readers inside, nobody registered yet, from the word just loaded
            /\ ~HasWaiter(E.x) /\ MaskWaiter(E.x) # 0 /\ seen[<<E.b, E.t>>] = E.x /\ waiting[E.b] = 0
            /\ IF E.ok = 1
               THEN st' = [st EXCEPT ![E.b] = E.y] /\ waiting' = [waiting EXCEPT ![E.b] = E.t]
               ELSE UNCHANGED <<st, waiting>>
            /\ UNCHANGED <<holder, inside>>
       [] E.y = E.x + READER ->
            \* reader: from the word just loaded, which shows neither waiter nor writer
            /\ ~HasWW(E.x) /\ seen[<<E.b, E.t>>] = E.x /\ E.t \notin inside[E.b]
            /\ IF E.ok = 1
               THEN st' = [st EXCEPT ![E.b] = E.y] /\ inside' = [inside EXCEPT ![E.b] = @ \cup {E.t}]
               ELSE UNCHANGED <<st, inside>>
            /\ UNCHANGED <<holder, waiting>>
       [] OTHER -> FALSE
  /\ seen' = [seen EXCEPT ![<<E.b, E.t>>] = -1]
  /\ UNCHANGED <<wtr, duty>>

EvSt ==          \* unlock_root
  /\ Adv /\ E.e = "st" /\ Free(E.t)
  /\ E.x = 0 /\ holder[E.b] = E.t /\ HasWriter(st[E.b]) /\ inside[E.b] = {}
  /\ st' = [st EXCEPT ![E.b] = 0] /\ holder' = [holder EXCEPT ![E.b] = 0]
  /\ waiting' = [waiting EXCEPT ![E.b] = IF @ = E.t THEN 0 ELSE @]
  /\ UNCHANGED <<wtr, seen, inside, duty>>

EvAdd ==         \* a reader leaves the tree
  /\ Adv /\ E.e = "add" /\ Free(E.t)
  /\ E.x = -READER /\ E.cur = st[E.b] /\ E.t \in inside[E.b] /\ ~HasWriter(st[E.b])
  /\ st' = [st EXCEPT ![E.b] = @ - READER] /\ inside' = [inside EXCEPT ![E.b] = @ \ {E.t}]
  /\ duty' = [duty EXCEPT ![E.t] = IF E.cur = READER + WAITER THEN <<"load", E.b>> ELSE <<"none">>]
  /\ UNCHANGED <<wtr, holder, waiting, seen>>

EvWswap ==       \* the waiting writer publishes its handle / the new holder clears it
  /\ Adv /\ E.e = "wswap" /\ Free(E.t)
  /\ IF E.new # 0
     THEN E.new = E.t /\ waiting[E.b] = E.t /\ wtr[E.b] = 0
     ELSE holder[E.b] = E.t
  /\ wtr' = [wtr EXCEPT ![E.b] = E.new]
  /\ UNCHANGED <<st, holder, waiting, seen, inside, duty>>

EvWload ==       \* the last reader out looks for somebody to wake
  /\ Adv /\ E.e = "wload"
  /\ duty[E.t] = <<"load", E.b>> /\ E.cur = wtr[E.b]
  /\ duty' = [duty EXCEPT ![E.t] = IF E.cur # 0 THEN <<"unpark", E.cur>> ELSE <<"none">>]
  /\ UNCHANGED <<st, wtr, holder, waiting, seen, inside>>

EvUnpark ==
  /\ Adv /\ E.e = "unpark"
  /\ duty[E.t] = <<"unpark", E.u>>
  /\ duty' = [duty EXCEPT ![E.t] = <<"none">>]
  /\ UNCHANGED <<st, wtr, holder, waiting, seen, inside>>

EvPark ==        \* only the thread that registered as waiter, after seeing WAITER and readers in the word
  /\ Adv /\ E.e = "park" /\ Free(E.t)
  /\ \E b \in Bins : waiting[b] = E.t /\ seen[<<b, E.t>>] # -1 /\ HasWaiter(seen[<<b, E.t>>]) /\ MaskWaiter(seen[<<b, E.t>>]) # 0
  /\ UNCHANGED <<st, wtr, holder, waiting, seen, inside, duty>>

\* Mutex of TreeBinLock.tla on the replayed state (a step into a state without it is not accepted)
Mutex == \A b \in DOMAIN st : HasWriter(st[b]) => inside[b] = {}
WordOK == \A b \in DOMAIN st : st[b] >= 0 /\ st[b] % 4 # 3 /\ st[b] \div READER = Cardinality(inside[b])
Next == (EvLd \/ EvCas \/ EvSt \/ EvAdd \/ EvWswap \/ EvWload \/ EvUnpark \/ EvPark) /\ Mutex' /\ WordOK'
Spec == Init /\ [][Next]_vars
Done == l > Len(Ev)
\* at the end of a finished run: every lock word is 0, no waiter registered, no duty open
EndOK == (Done /\ Rec.finished = 1) => (\A b \in DOMAIN st : st[b] = 0 /\ wtr[b] = 0) /\ (\A t \in DOMAIN duty : duty[t] = <<"none">>)
Report ==
  /\ (Done /\ EndOK) => PrintT(<<"ACCEPT", Rec.id>>)
  /\ Diag => PrintT(<<"AT", Rec.id, l>>)
=============================================================================
