--------------------------- MODULE Trace_Resize ---------------------------
(***************************************************************************)
(* C10: cooperative resizing - no overlap, single publication, full        *)
(* completion.  Monitor over the resize site events recorded from the real *)
(* crate (each emitted after the state change it reports):                 *)
(*   init(tab,n)     a table of n bins was installed by initialisation     *)
(*   start(tab,n)    a resize of table tab (n bins) was started            *)
(*   join(tab)       a thread joined the resize, running transfer on tab   *)
(*   leave(tab,fin)  a thread left; fin = 1: it is the finishing thread    *)
(*   mig(tab,i)      bin i of tab was forwarded                            *)
(*   pub(old,new,n)  table new (n bins) replaced table old                 *)
(*   end(len,sc,nt,dropok)  quiescent end of the run                       *)
(* The same conditions are the invariants ResizeSafe of Flurry.tla.        *)
(* Tables are renamed to 1,2,3.. in order of first appearance.             *)
(***************************************************************************)
EXTENDS Naturals, Sequences, FiniteSets, TLC, Json, IOUtils

Traces == ndJsonDeserialize(IOEnv.TRACES)
Diag == "DIAG" \in DOMAIN IOEnv /\ IOEnv.DIAG = "1"

VARIABLES tr, l,
          cur,      \* current table (0 = none)
          len,      \* table -> length
          open,     \* table being resized (0 = no resize in progress)
          migrated, \* bins of `open` forwarded so far
          active,   \* threads inside transfer for `open`
          fins,     \* finishing threads seen for `open`
          gens      \* completed resizes
vars == <<tr, l, cur, len, open, migrated, active, fins, gens>>
Ev == Traces[tr].ev
MaxTab == 40

Init ==
  /\ tr \in 1..Len(Traces) /\ l = 1
  /\ cur = 0 /\ len = [t \in 0..MaxTab |-> 0] /\ open = 0 /\ migrated = {} /\ active = 0 /\ fins = 0
  /\ gens = 0

E == Ev[l]
Step(cond) == l <= Len(Ev) /\ l' = l + 1 /\ UNCHANGED tr /\ cond

EvInit ==
  Step(E.e = "init" /\ cur = 0 /\ open = 0)
  /\ cur' = E.tab /\ len' = [len EXCEPT ![E.tab] = E.n]
  /\ UNCHANGED <<open, migrated, active, fins, gens>>

\* generation g+1 starts only after g is published; only the current table is resized
EvStart ==
  Step(E.e = "start" /\ open = 0 /\ E.tab = cur /\ E.n = len[cur])
  /\ open' = E.tab /\ migrated' = {} /\ active' = 1 /\ fins' = 0
  /\ UNCHANGED <<cur, len, gens>>

\* a helper joins the resize in progress - with the tables of *that* resize
EvJoin ==
  Step(E.e = "join" /\ open # 0 /\ E.tab = open /\ fins = 0)
  /\ active' = active + 1
  /\ UNCHANGED <<cur, len, open, migrated, fins, gens>>

\* exactly one thread is elected to finish, and it is the last one to leave
EvLeave ==
  Step(E.e = "leave" /\ open # 0 /\ active > 0 /\ (E.fin = 1 => (fins = 0 /\ active = 1)))
  /\ active' = active - 1
  /\ fins' = fins + E.fin
  /\ UNCHANGED <<cur, len, open, migrated, gens>>

\* every old bin is migrated exactly once
EvMig ==
  Step(E.e = "mig" /\ E.tab = open /\ E.i < len[open] /\ E.i \notin migrated)
  /\ migrated' = migrated \cup {E.i}
  /\ UNCHANGED <<cur, len, open, active, fins, gens>>

\* exactly one publication, after all bins were migrated, of a table twice as long
EvPub ==
  Step(E.e = "pub" /\ E.old = open /\ E.old = cur /\ E.new # E.old
       /\ migrated = 0..(len[open] - 1) /\ E.n = 2 * len[open] /\ fins = 1 /\ active = 0)
  /\ cur' = E.new /\ len' = [len EXCEPT ![E.new] = E.n] /\ open' = 0 /\ migrated' = {}
  /\ gens' = gens + 1
  /\ UNCHANGED <<active, fins>>

\* after the last participant left: not resizing, threshold 3/4 of the length, drop does not panic
EvEnd ==
  Step(E.e = "end" /\ open = 0 /\ active = 0 /\ E.nt = 0 /\ E.dropok = 1
       /\ E.len = len[cur] /\ (cur # 0 => E.sc = E.len - E.len \div 4) /\ E.panics = 0)
  /\ UNCHANGED <<cur, len, open, migrated, active, fins, gens>>

Next == EvInit \/ EvStart \/ EvJoin \/ EvLeave \/ EvMig \/ EvPub \/ EvEnd
Spec == Init /\ [][Next]_vars
Done == l > Len(Ev)
Report ==
  /\ Done => PrintT(<<"ACCEPT", Traces[tr].id, gens>>)
  /\ Diag => PrintT(<<"AT", Traces[tr].id, l>>)
=============================================================================
