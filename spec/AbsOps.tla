----------------------------- MODULE AbsOps -----------------------------
(***************************************************************************)
(* The sequential meaning of flurry's per-key operations on an abstract    *)
(* map  m : Key -> entry,  entry = [v |-> value uid, tag |-> key tag,      *)
(* pl |-> payload].  uid 0 means "absent".  Keys are compared by id only;  *)
(* the tag says which key *instance* is stored ("the key stored first is   *)
(* kept").  The uid identifies the value *instance* (unique per inserted   *)
(* value), the payload is its content.  For sets the value uid is 1.       *)
(*                                                                         *)
(* An operation is a record with at least [op, k, tag, v, pl, f]:          *)
(*   v, pl = uid / payload of the value the call brings along (insert,     *)
(*           try_insert, compute with f # "none")                          *)
(*   f     = remapping function of compute: "inc" | "const" | "none"       *)
(* A result is a record [ok, v, tag, ni, seen, pl]:                        *)
(*   seen = uid handed to the remapping function (0 = not invoked)         *)
(* Pure operators only: used by FlurryAbs (exhaustive), by the trace       *)
(* specifications (Trace_Lin, Trace_Seq, ...) and by FlurrySeq.            *)
(***************************************************************************)
EXTENDS Naturals, Integers, Sequences

Absent == [v |-> 0, tag |-> 0, pl |-> 0]
Present(m, k) == m[k].v # 0
Res(ok, v, tag, ni, seen, pl) == [ok |-> ok, v |-> v, tag |-> tag, ni |-> ni, seen |-> seen, pl |-> pl]
NoRes == Res(0, 0, 0, 0, 0, 0)
B(b) == IF b THEN 1 ELSE 0

ReadOps == {"get", "get_key_value", "contains_key", "contains"}
UpdateOps == {"insert", "try_insert", "remove", "remove_entry", "take", "compute"}
PerKeyOps == ReadOps \cup UpdateOps

\* new state after op
ApplyState(m, o) ==
  LET k == o.k IN
  CASE o.op = "insert" ->
         [m EXCEPT ![k] = [v |-> o.v, tag |-> IF Present(m, k) THEN m[k].tag ELSE o.tag, pl |-> o.pl]]
    [] o.op = "try_insert" ->
         IF Present(m, k) THEN m ELSE [m EXCEPT ![k] = [v |-> o.v, tag |-> o.tag, pl |-> o.pl]]
    [] o.op \in {"remove", "remove_entry", "take"} -> [m EXCEPT ![k] = Absent]
    [] o.op = "compute" ->
         IF ~Present(m, k) THEN m
         ELSE IF o.f = "none" THEN [m EXCEPT ![k] = Absent]
         ELSE [m EXCEPT ![k].v = o.v, ![k].pl = IF o.f = "inc" THEN @ + 1 ELSE o.pl]
    [] OTHER -> m

\* result of op in state m
ApplyResult(m, o) ==
  LET k == o.k  p == Present(m, k)  e == m[k] IN
  CASE o.op = "get" -> Res(B(p), e.v, 0, 0, 0, 0)
    [] o.op = "get_key_value" -> Res(B(p), e.v, e.tag, 0, 0, 0)
    [] o.op \in {"contains_key", "contains"} -> Res(B(p), 0, 0, 0, 0, 0)
    [] o.op = "insert" -> Res(B(p), e.v, 0, 0, 0, 0)
    [] o.op = "try_insert" -> IF p THEN Res(0, e.v, 0, o.v, 0, 0) ELSE Res(1, o.v, 0, 0, 0, 0)
    [] o.op = "remove" -> Res(B(p), e.v, 0, 0, 0, 0)
    [] o.op \in {"remove_entry", "take"} -> Res(B(p), e.v, e.tag, 0, 0, 0)
    [] o.op = "compute" ->
         IF ~p THEN NoRes
         ELSE IF o.f = "none" THEN Res(0, 0, 0, 0, e.v, 0)
         ELSE Res(1, o.v, 0, 0, e.v, IF o.f = "inc" THEN e.pl + 1 ELSE o.pl)
    [] OTHER -> NoRes

\* A logged result r matches the expected result x of operation o (only the fields that are
\* meaningful for the operation and the collection flavour are compared).
Matches(o, r, x, isSet) ==
  /\ r.ok = x.ok
  /\ (~isSet /\ o.op \in {"get", "get_key_value", "insert", "try_insert", "remove", "remove_entry", "compute"})
        => r.v = x.v
  /\ (o.op \in {"get_key_value", "remove_entry", "take"}) => r.tag = x.tag
  /\ (~isSet /\ o.op = "try_insert") => r.ni = x.ni
  /\ (o.op = "compute") => (r.seen = x.seen /\ r.pl = x.pl)
=============================================================================
