----------------------------- MODULE AbsOps -----------------------------
(***************************************************************************)
(* The sequential meaning of flurry's per-key operations on an abstract    *)
(* map  m : Key -> entry,  entry = [v |-> value uid, tag |-> key tag].     *)
(* uid 0 means "absent".  Keys are compared by id only; the tag says which *)
(* key *instance* is stored ("the key stored first is kept").              *)
(* For sets the value uid is always 1.                                     *)
(*                                                                         *)
(* An operation is a record [op, k, tag, v, f]:                            *)
(*   v   = uid of the value the call brings along (insert, try_insert,     *)
(*         compute with f # "none")                                        *)
(* A result is a record [ok, v, tag, ni, seen]:                            *)
(*   seen = uid handed to the remapping function (0 = not invoked)         *)
(* Pure operators only: used by FlurryAbs (exhaustive), by the trace       *)
(* specifications (Trace_Lin, Trace_Retain, ...) and by FlurrySeq.         *)
(***************************************************************************)
EXTENDS Naturals, Sequences

Absent == [v |-> 0, tag |-> 0]
Present(m, k) == m[k].v # 0
Res(ok, v, tag, ni, seen) == [ok |-> ok, v |-> v, tag |-> tag, ni |-> ni, seen |-> seen]
B(b) == IF b THEN 1 ELSE 0

ReadOps == {"get", "get_key_value", "contains_key", "contains"}
UpdateOps == {"insert", "try_insert", "remove", "remove_entry", "take", "compute"}
PerKeyOps == ReadOps \cup UpdateOps

\* new state after op
ApplyState(m, o) ==
  LET k == o.k IN
  CASE o.op = "insert" ->
         [m EXCEPT ![k] = [v |-> o.v, tag |-> IF Present(m, k) THEN m[k].tag ELSE o.tag]]
    [] o.op = "try_insert" ->
         IF Present(m, k) THEN m ELSE [m EXCEPT ![k] = [v |-> o.v, tag |-> o.tag]]
    [] o.op \in {"remove", "remove_entry", "take"} -> [m EXCEPT ![k] = Absent]
    [] o.op = "compute" ->
         IF ~Present(m, k) THEN m
         ELSE IF o.f = "none" THEN [m EXCEPT ![k] = Absent]
         ELSE [m EXCEPT ![k].v = o.v]
    [] OTHER -> m

\* result of op in state m
ApplyResult(m, o) ==
  LET k == o.k  p == Present(m, k)  e == m[k] IN
  CASE o.op = "get" -> Res(B(p), e.v, 0, 0, 0)
    [] o.op = "get_key_value" -> Res(B(p), e.v, e.tag, 0, 0)
    [] o.op \in {"contains_key", "contains"} -> Res(B(p), 0, 0, 0, 0)
    [] o.op = "insert" -> Res(B(p), e.v, 0, 0, 0)
    [] o.op = "try_insert" -> IF p THEN Res(0, e.v, 0, o.v, 0) ELSE Res(1, o.v, 0, 0, 0)
    [] o.op = "remove" -> Res(B(p), e.v, 0, 0, 0)
    [] o.op \in {"remove_entry", "take"} -> Res(B(p), e.v, e.tag, 0, 0)
    [] o.op = "compute" ->
         IF ~p THEN Res(0, 0, 0, 0, 0)
         ELSE IF o.f = "none" THEN Res(0, 0, 0, 0, e.v)
         ELSE Res(1, o.v, 0, 0, e.v)
    [] OTHER -> Res(0, 0, 0, 0, 0)

\* Which fields of a logged result are meaningful for an operation (map flavour / set flavour).
\* A logged result r matches the expected result x of operation o:
Matches(o, r, x, isSet) ==
  /\ r.ok = x.ok
  /\ (~isSet /\ o.op \in {"get", "get_key_value", "insert", "try_insert", "remove", "remove_entry", "compute"})
        => r.v = x.v
  /\ (o.op \in {"get_key_value", "remove_entry", "take"} \/ (isSet /\ o.op = "get")) => r.tag = x.tag
  /\ (~isSet /\ o.op = "try_insert") => r.ni = x.ni
  /\ (o.op = "compute") => r.seen = x.seen
=============================================================================
