-------------------------- MODULE Trace_Capacity --------------------------
(***************************************************************************)
(* C14: capacity contract.  Input (env TRACES): per recorded sequential    *)
(* run the table length / entry count before and after every operation     *)
(* (inspector), the population of the bin the operation's key hashes to,   *)
(* and "fill" events for the two promises about requested capacity:        *)
(*   {e:"op", kind, lenb, lena, cntb, cnta, binpop}                        *)
(*       kind \in {"insert","reserve","extend","other"}                    *)
(*   {e:"fill", c, len0, len1}: a collection created with_capacity(c) (or  *)
(*       on which reserve(c) returned) had length len0, and length len1    *)
(*       after c further collision-free entries were inserted              *)
(*   {e:"start", op}: (concurrent runs) a thread started a resize of the    *)
(*       table while it was executing the public operation op: growth is   *)
(*       started only by insert / try_insert / compute_if_present (whose    *)
(*       bookkeeping looks at the threshold, as in the Java original),      *)
(*       reserve / extend - never by remove, remove_entry, take, retain,    *)
(*       retain_force, clear or a lookup                                    *)
(* CapacityRules is also an action property of Flurry.tla (exhaustive).    *)
(***************************************************************************)
EXTENDS Naturals, Sequences, TLC, Json, IOUtils

Traces == ndJsonDeserialize(IOEnv.TRACES)
Diag == "DIAG" \in DOMAIN IOEnv /\ IOEnv.DIAG = "1"
VARIABLES tr, l
vars == <<tr, l>>
Ev == Traces[tr].ev
Pow2 == {2^i : i \in 0..30}
Threshold(n) == n - n \div 4

OpOk(e) ==
  /\ e.lena \in Pow2 \cup {0}                       \* power of two, at most 2^30
  /\ e.lena >= e.lenb                               \* never shrinks
  \* removing / reading never grows it.  (Lazy allocation of the first table - length 0 before -
  \* is initialisation, not growth: compute_if_present on a table-less map allocates the default
  \* table exactly as the first insert does, as in the Java original.)
  /\ (e.kind = "other") => (e.lena = e.lenb \/ e.lenb = 0)
  /\ (e.kind = "insert" /\ e.lena > e.lenb) =>
        \/ e.lenb = 0                                         \* lazy initialisation
        \/ e.cnta >= Threshold(e.lenb)                        \* count reached 3/4 of the length
        \/ (e.binpop >= 8 /\ e.lenb < 64)                     \* overfull bin in a small table
  /\ (e.kind = "insert" /\ e.lenb = 0) => e.lena > 0

FillOk(e) ==
  /\ e.len1 = e.len0                                \* room as requested
  /\ (e.c = 0 /\ e.fresh = 1) => e.len0 = 0         \* capacity 0 allocates no table
  /\ (e.c > 0) => e.len0 \in Pow2

Growers == {"insert", "try_insert", "compute", "reserve", "extend", "collect"}
StartOk(e) == e.op \in Growers

Init == tr \in 1..Len(Traces) /\ l = 1
Next ==
  /\ l <= Len(Ev)
  /\ l' = l + 1 /\ UNCHANGED tr
  /\ IF Ev[l].e = "op" THEN OpOk(Ev[l]) ELSE IF Ev[l].e = "start" THEN StartOk(Ev[l]) ELSE FillOk(Ev[l])
Spec == Init /\ [][Next]_vars
Done == l > Len(Ev)
Report ==
  /\ Done => PrintT(<<"ACCEPT", Traces[tr].id>>)
  /\ Diag => PrintT(<<"AT", Traces[tr].id, l>>)
=============================================================================
