SPECIFICATION Spec
CONSTANTS
  CAS_REL = TRUE
  STOREBIN_REL = TRUE
  BIN_ACQ = TRUE
  APPEND_REL = TRUE
INVARIANT PublicationSafe
CHECK_DEADLOCK FALSE
