------------------------------- MODULE Flurry -------------------------------
(***************************************************************************)
(* Implementation-shaped specification of flurry::HashMap (list bins):     *)
(* lazily initialised table, CAS into empty bins, per-bin mutex in the     *)
(* head node with re-validation, lock-free lookups through lists and       *)
(* chains of forwarded tables, the element count, and cooperative          *)
(* resizing driven by size_ctl / transfer_index / next_table.              *)
(*                                                                         *)
(* One action per shared-memory access that another thread can observe or  *)
(* influence; reads and the one write a lock holder performs inside a      *)
(* critical section are merged into the action of that write (the lock     *)
(* makes them movers).  The action names are the labels of the yield       *)
(* points of the instrumented crate (src/verif.rs hooks), e.g.             *)
(*   PutLoadBin = Table::bin in put, PutCas = Table::cas_bin,              *)
(*   AcCasStart = size_ctl.compare_exchange(sc, rs + 2) in add_count,      *)
(*   XCasTi = transfer_index.compare_exchange in transfer, ...             *)
(*                                                                         *)
(* Deliberate deviations of the code from java.util.concurrent that are    *)
(* modelled as the code has them:                                          *)
(*   D1  after a successful stride claim `i = next_index` (Java: -1): the  *)
(*       claimer falls into the "finished" branch at once; the finishing   *)
(*       thread's sweep migrates what the claims skipped                   *)
(*   D4  one count cell; add_count(-1, hint) compares old + n with size_ctl*)
(*   D8  try_insert's lock-free fast path on the head node                 *)
(* STAMPCHECK = TRUE models help_transfer with the resize-stamp test       *)
(* (fix b4617bf); FALSE models the pinned code, for which TLC finds a      *)
(* helper of table A joining the resize of table B (finding F6).           *)
(* ACSTAMPCHECK likewise for add_count: without it TLC finds a thread that *)
(* read size_ctl = -1 during the lazy initialisation and later "joins"     *)
(* with CAS(-1 -> 0) when a late init_table sets -1 again (finding F7).    *)
(*                                                                         *)
(* size_ctl encoding: thresholds >= 0; -1 = initialising; a resize of a    *)
(* table of n bins with k-1 active resizers is RS(n) + k, RS(n) = -1000 n  *)
(* (injective in n and negative, which is what Sizing.tla establishes for  *)
(* the real 64-bit stamps); MAXRES < 1000.                                 *)
(*                                                                         *)
(* Tree bins are specified separately (TreeBinLock.tla: the read-write     *)
(* lock; Trace_RB.tla / TreeBinRB: the red-black structure).               *)
(***************************************************************************)
EXTENDS AbsOps, FiniteSets, TLC

CONSTANTS Threads,     \* thread ids
          Prog,        \* Prog[t] = sequence of operations [op, k, tag, v, pl, f]
          HashOf,      \* key -> hash
          InitKeys,    \* entries present initially: sequence of [k, v, pl]
          N0,          \* initial table length (0 = table not allocated yet)
          DCAP,        \* DEFAULT_CAPACITY
          MaxNodes, MaxTabs,
          STRIDE,      \* transfer stride
          MAXRES,      \* MAX_RESIZERS
          STAMPCHECK,  \* help_transfer compares the stamp bits of size_ctl (fix b4617bf)
          ACSTAMPCHECK, \* add_count does so too before joining a resize (fix for finding F7)
          TRAVOFF,     \* 0 = the traverser as written; 1 = an off-by-one in recover_state (self-test of IterWeak)
          RETAINCHECK, \* TRUE = retain removes an entry only if its value is still the one the predicate saw
          TT, MTC,     \* TREEIFY_THRESHOLD, MIN_TREEIFY_CAPACITY: put on a list bin of >= TT nodes calls treeify_bin:
                       \* try_presize(2n) in a table shorter than MTC, conversion of the bin into a tree bin otherwise
          UT,          \* UNTREEIFY_THRESHOLD: a half of a split tree bin with <= UT nodes becomes a list bin
          CLRWAIT,     \* TRUE = clear() continues in the next table only once it has replaced the old one (fix baee14a);
                       \* FALSE = the pinned code: it restarts there at once (finding F8: violates ClearSafe)
          XSKIP,       \* FALSE = the code; TRUE = transfer skips a bin whose head changed while it waited for its lock
          SMIN, SMAX   \* a removal from a tree bin answers "too small" (the bin is turned back into a list) always when
                       \* <= SMIN nodes remain, never when > SMAX remain, and otherwise depending on the tree's shape
                       \* (TreeBinRB.tla: SMIN = 3, SMAX = 9 for the real test) - nondeterministic here

VARIABLES tabs, ntabs, table, nextTable, sizeCtl, transferIndex, count,
          node, nextId, lockOwner, pc, idx, loc,
          res, before, doneOps,          \* history: results and real-time order (linearizability)
          mig, pubs, fins, joins,        \* history: resize bookkeeping (C10)
          amap,                          \* ghost: abstract contents, updated at the commit points
          ith                            \* ghost: per thread, bookkeeping of its running iterator (C07)
vars == <<tabs, ntabs, table, nextTable, sizeCtl, transferIndex, count, node, nextId, lockOwner,
          pc, idx, loc, res, before, doneOps, mig, pubs, fins, joins, amap, ith>>
\* the part of the state that determines future behaviour (history variables are excluded)
view == <<tabs, ntabs, table, nextTable, sizeCtl, transferIndex, count, node, nextId, lockOwner, pc, idx, loc, res, before, amap, ith>>

NULL == 0
FWD == -1
Ids == 1..MaxNodes
RS(n) == -(1000 * n)
StampN(sc) == ((-sc) + 999) \div 1000      \* the n with sc \in RS(n)+1 .. RS(n)+999
LF(n) == n - (n \div 4)
CurOp(t) == Prog[t][idx[t]]
OpId(t) == <<t, idx[t]>>
TLen(tb) == tabs[tb].len
BinI(tb, k) == HashOf[k] % TLen(tb)
IsRead(o) == o.op \in {"get", "get_key_value", "contains_key", "iter"}
RetainOps == {"retain", "retain_force"}
\* the predicates of the retain calls in programs (o.f): on the key id
Keep(f, k) == CASE f = "all" -> TRUE [] f = "none" -> FALSE [] f = "even" -> k % 2 = 0 [] f = "odd" -> k % 2 = 1 [] OTHER -> TRUE
L0 == [tb |-> 0, b |-> NULL, p |-> NULL, i |-> 0, bound |-> 0, adv |-> FALSE, fin |-> FALSE,
       xt |-> 0, nt |-> 0, n |-> 0, sc |-> 0, c |-> 0, ret |-> "", lo |-> NULL, hi |-> NULL,
       r |-> NoRes, hint |-> FALSE, after |-> "", req |-> 0,
       d |-> 0,                           \* the count delta of the running operation (a local of its own: c is reused by transfer)
       itb |-> 0, rk |-> 0, ov |-> 0,     \* retain: the traverser's table while replace_node runs, the judged key and value
       \* traverser (iter/traverser.rs): stack of <<table, length, index>>, prev node, candidate e
       stk |-> <<>>, prev |-> NULL, e |-> NULL, ix |-> 0, bi |-> 0, bl |-> 0, bs |-> 0]
EmptyTab(n) == [len |-> n, bins |-> [j \in 0..n-1 |-> NULL], next |-> 0]
NoTab == [len |-> 0, bins |-> <<>>, next |-> 0]
NoIter == [on |-> FALSE, done |-> FALSE, atc |-> {}, ever |-> {}, touched |-> {}, yl |-> <<>>, rm |-> {}]

\* initial heap: InitKeys[j] lives in node j; nodes of one bin are chained in insertion order
NK == Len(InitKeys)
SameBinLater(j) == {m \in (j+1)..NK : HashOf[InitKeys[m].k] % N0 = HashOf[InitKeys[j].k] % N0}
Min(S) == CHOOSE x \in S : \A y \in S : x <= y
InitNode(j) == [key |-> InitKeys[j].k, val |-> InitKeys[j].v, pl |-> InitKeys[j].pl, tag |-> 1,
                tree |-> FALSE,
                next |-> IF SameBinLater(j) = {} THEN NULL ELSE Min(SameBinLater(j))]
InitBin(i) == LET S == {j \in 1..NK : HashOf[InitKeys[j].k] % N0 = i} IN IF S = {} THEN NULL ELSE Min(S)

Init ==
  /\ tabs = [j \in 1..MaxTabs |->
               IF j = 1 /\ N0 > 0 THEN [len |-> N0, bins |-> [i \in 0..N0-1 |-> InitBin(i)], next |-> 0] ELSE NoTab]
  /\ ntabs = IF N0 > 0 THEN 1 ELSE 0
  /\ table = IF N0 > 0 THEN 1 ELSE 0
  /\ nextTable = 0
  /\ sizeCtl = IF N0 > 0 THEN LF(N0) ELSE 0
  /\ transferIndex = 0 /\ count = NK
  /\ node = [i \in Ids |-> IF i <= NK THEN InitNode(i) ELSE [key |-> 0, val |-> 0, pl |-> 0, tag |-> 0, tree |-> FALSE, next |-> NULL]]
  /\ nextId = NK + 1 /\ lockOwner = [i \in Ids |-> 0]
  /\ pc = [t \in Threads |-> "idle"] /\ idx = [t \in Threads |-> 1]
  /\ loc = [t \in Threads |-> L0]
  /\ res = <<>> /\ before = {} /\ doneOps = {}
  /\ mig = {} /\ pubs = {} /\ fins = {} /\ joins = {}
  /\ amap = [k \in DOMAIN HashOf |->
               IF \E j \in 1..NK : InitKeys[j].k = k
               THEN LET j == CHOOSE j \in 1..NK : InitKeys[j].k = k IN [v |-> InitKeys[j].v, tag |-> 1, pl |-> InitKeys[j].pl]
               ELSE Absent]
  /\ ith = [t \in Threads |-> NoIter]

Goto(t, l) == pc' = [pc EXCEPT ![t] = l]
SetLoc(t, r) == loc' = [loc EXCEPT ![t] = r]
UnchHeap == UNCHANGED <<node, nextId, lockOwner>>
UnchTab == UNCHANGED <<tabs, ntabs, table, nextTable>>
UnchCtl == UNCHANGED <<sizeCtl, transferIndex, count>>
UnchRz == UNCHANGED <<mig, pubs, fins, joins, amap, ith>>
UnchHist == UNCHANGED <<res, before, doneOps, idx, mig, pubs, fins, joins, amap, ith>>
\* commit point of an update: the abstract contents change and every running iterator learns it
Ghost(k, ent) ==
  /\ amap' = [amap EXCEPT ![k] = ent]
  /\ ith' = [u \in Threads |->
               IF ith[u].on
               THEN [ith[u] EXCEPT !.touched = @ \cup {k},
                                   !.ever = IF ent.v # 0 THEN @ \cup {<<k, ent.v>>} ELSE @]
               ELSE ith[u]]

Finish(t, r) ==
  /\ res' = (OpId(t) :> r) @@ res
  /\ doneOps' = doneOps \cup {OpId(t)}
  /\ idx' = [idx EXCEPT ![t] = @ + 1]
  /\ pc' = [pc EXCEPT ![t] = "idle"]
  /\ loc' = [loc EXCEPT ![t] = L0]

Call(t) ==
  /\ pc[t] = "idle" /\ idx[t] <= Len(Prog[t])
  /\ before' = before \cup {<<o, OpId(t)>> : o \in doneOps}
  /\ Goto(t, "LoadTable")
  /\ UNCHANGED <<tabs, ntabs, table, nextTable, sizeCtl, transferIndex, count, node, nextId, lockOwner,
                 idx, loc, res, doneOps, mig, pubs, fins, joins, amap, ith>>

(* ------------------------------------------------------------------------ *)
(* entry of every per-key operation: self.table.load                        *)
LoadTable(t) ==
  /\ pc[t] = "LoadTable" /\ CurOp(t).op \notin {"iter", "clear", "reserve"} \cup RetainOps
  /\ IF table = 0
     THEN IF CurOp(t).op \in {"insert", "try_insert", "compute"}
          THEN Goto(t, "InitLoadTable") /\ UNCHANGED loc /\ UNCHANGED <<res, doneOps, idx>>   \* init_table
          ELSE Finish(t, NoRes)                                                              \* nothing there
     ELSE SetLoc(t, [loc[t] EXCEPT !.tb = table]) /\ Goto(t, "LoadBin") /\ UNCHANGED <<res, doneOps, idx>>
  /\ UnchHeap /\ UnchTab /\ UnchCtl /\ UNCHANGED before /\ UnchRz

(* ---- init_table ---------------------------------------------------------- *)
InitLoadTable(t) ==
  /\ pc[t] = "InitLoadTable"
  /\ IF table # 0 THEN SetLoc(t, [loc[t] EXCEPT !.tb = table]) /\ Goto(t, "LoadBin")
     ELSE Goto(t, "InitLoadSc") /\ UNCHANGED loc
  /\ UnchHeap /\ UnchTab /\ UnchCtl /\ UnchHist
InitLoadSc(t) ==
  /\ pc[t] = "InitLoadSc"
  /\ IF sizeCtl < 0 THEN Goto(t, "InitSpin") /\ UNCHANGED loc          \* lost the race: yield, retry
     ELSE SetLoc(t, [loc[t] EXCEPT !.sc = sizeCtl]) /\ Goto(t, "InitCasSc")
  /\ UnchHeap /\ UnchTab /\ UnchCtl /\ UnchHist
InitSpin(t) ==
  /\ pc[t] = "InitSpin" /\ Goto(t, "InitLoadTable") /\ UNCHANGED loc
  /\ UnchHeap /\ UnchTab /\ UnchCtl /\ UnchHist
InitCasSc(t) ==
  /\ pc[t] = "InitCasSc"
  /\ IF sizeCtl = loc[t].sc THEN sizeCtl' = -1 /\ Goto(t, "InitRecheck")
                           ELSE UNCHANGED sizeCtl /\ Goto(t, "InitLoadTable")
  /\ UNCHANGED <<transferIndex, count, loc>> /\ UnchHeap /\ UnchTab /\ UnchHist
InitRecheck(t) ==
  /\ pc[t] = "InitRecheck"
  /\ IF table # 0 THEN SetLoc(t, [loc[t] EXCEPT !.tb = table, !.c = loc[t].sc]) /\ Goto(t, "InitStoreSc")
     ELSE Goto(t, "InitStoreTable") /\ UNCHANGED loc
  /\ UnchHeap /\ UnchTab /\ UnchCtl /\ UnchHist
InitStoreTable(t) ==
  /\ pc[t] = "InitStoreTable" /\ ntabs < MaxTabs
  /\ LET n == IF loc[t].sc > 0 THEN loc[t].sc ELSE DCAP IN
     /\ tabs' = [tabs EXCEPT ![ntabs + 1] = EmptyTab(n)]
     /\ ntabs' = ntabs + 1 /\ table' = ntabs + 1
     /\ SetLoc(t, [loc[t] EXCEPT !.tb = ntabs + 1, !.c = LF(n)])
  /\ Goto(t, "InitStoreSc")
  /\ UNCHANGED nextTable /\ UnchHeap /\ UnchCtl /\ UnchHist
InitStoreSc(t) ==
  /\ pc[t] = "InitStoreSc"
  /\ sizeCtl' = loc[t].c /\ Goto(t, "LoadBin") /\ UNCHANGED loc
  /\ UNCHANGED <<transferIndex, count>> /\ UnchHeap /\ UnchTab /\ UnchHist

(* ---- bin load and dispatch (put / try_insert / compute / remove / lookups) - *)
LoadBin(t) ==
  /\ pc[t] = "LoadBin"
  /\ LET tb == loc[t].tb  o == CurOp(t)  b == tabs[tb].bins[BinI(tb, o.k)] IN
     IF b = NULL /\ o.op \notin {"insert", "try_insert"}
     THEN Finish(t, NoRes)                                     \* empty bin: absent
     ELSE /\ SetLoc(t, [loc[t] EXCEPT !.b = b, !.p = b])
          /\ Goto(t, IF b = NULL THEN "PutCas"
                     ELSE IF b = FWD THEN (IF IsRead(o) THEN "GetFwd" ELSE "HLoadNt")
                     ELSE IF IsRead(o) THEN "Walk"
                     ELSE IF o.op = "try_insert" /\ node[b].key = o.k THEN "TiFast"
                     ELSE "Lock")
          /\ UNCHANGED <<res, doneOps, idx>>
  /\ UnchHeap /\ UnchTab /\ UnchCtl /\ UNCHANGED before /\ UnchRz

GetFwd(t) ==      \* Table::find on a forwarding marker: self.next_table, then the bin there
  /\ pc[t] = "GetFwd"
  /\ SetLoc(t, [loc[t] EXCEPT !.tb = tabs[loc[t].tb].next]) /\ Goto(t, "LoadBin")
  /\ UnchHeap /\ UnchTab /\ UnchCtl /\ UnchHist

PutCas(t) ==      \* cas_bin(null -> new node)
  /\ pc[t] = "PutCas"
  /\ LET tb == loc[t].tb  o == CurOp(t)  i == BinI(tb, o.k) IN
     IF tabs[tb].bins[i] = NULL
     THEN /\ nextId <= MaxNodes
          /\ node' = [node EXCEPT ![nextId] = [key |-> o.k, val |-> o.v, pl |-> o.pl, tag |-> o.tag, tree |-> FALSE, next |-> NULL]]
          /\ tabs' = [tabs EXCEPT ![tb].bins[i] = nextId]
          /\ nextId' = nextId + 1
          /\ SetLoc(t, [loc[t] EXCEPT !.d = 1, !.hint = TRUE,
                                      !.r = IF o.op = "try_insert" THEN Res(1, o.v, 0, 0, 0, 0) ELSE NoRes])
          /\ Goto(t, "AcFetch")
          /\ Ghost(o.k, [v |-> o.v, tag |-> o.tag, pl |-> o.pl])
          /\ UNCHANGED <<ntabs, table, nextTable, lockOwner>> /\ UnchCtl
          /\ UNCHANGED <<res, before, doneOps, idx, mig, pubs, fins, joins>>
     ELSE \* the failed CAS hands back the bin's current (non-null) value: no reload (bin = changed.current)
          LET b == tabs[tb].bins[i] IN
          /\ SetLoc(t, [loc[t] EXCEPT !.b = b, !.p = b])
          /\ Goto(t, IF b = FWD THEN "HLoadNt"
                     ELSE IF o.op = "try_insert" /\ node[b].key = o.k THEN "TiFast"
                     ELSE "Lock")
          /\ UnchHeap /\ UnchTab /\ UnchCtl /\ UnchHist

TiFast(t) ==      \* try_insert: head matches; head.value.load without the lock (D8)
  /\ pc[t] = "TiFast"
  /\ Finish(t, Res(0, node[loc[t].b].val, 0, CurOp(t).v, 0, 0))
  /\ UnchHeap /\ UnchTab /\ UnchCtl /\ UNCHANGED before /\ UnchRz

Walk(t) ==        \* lock-free list walk: one node (its next pointer) per step
  /\ pc[t] = "Walk"
  /\ LET p == loc[t].p IN
     IF p = NULL THEN Finish(t, NoRes) /\ UNCHANGED before
     ELSE IF node[p].key = CurOp(t).k
          THEN Goto(t, "LoadVal") /\ UNCHANGED <<loc, res, doneOps, idx, before>>
          ELSE SetLoc(t, [loc[t] EXCEPT !.p = node[p].next]) /\ UNCHANGED <<pc, res, doneOps, idx, before>>
  /\ UnchHeap /\ UnchTab /\ UnchCtl /\ UnchRz
LoadVal(t) ==     \* node.value.load
  /\ pc[t] = "LoadVal"
  /\ LET p == loc[t].p  o == CurOp(t) IN
     Finish(t, Res(1, IF o.op = "contains_key" THEN 0 ELSE node[p].val,
                   IF o.op = "get_key_value" THEN node[p].tag ELSE 0, 0, 0, 0))
  /\ UnchHeap /\ UnchTab /\ UnchCtl /\ UNCHANGED before /\ UnchRz

Lock(t) ==        \* head.lock.lock()
  /\ pc[t] = "Lock" /\ lockOwner[loc[t].b] = 0
  /\ lockOwner' = [lockOwner EXCEPT ![loc[t].b] = t] /\ Goto(t, "Reval")
  /\ UNCHANGED <<node, nextId, loc>> /\ UnchTab /\ UnchCtl /\ UnchHist

RECURSIVE Pow2AtLeast(_, _)
Pow2AtLeast(x, p) == IF p >= x THEN p ELSE Pow2AtLeast(x, 2 * p)
ReqCap(size) == Pow2AtLeast(size + (size \div 2) + 1, 1)
(* A tree bin is a header entry (tree = TRUE, key 0: it matches no key) whose next pointer is the bin's   *)
(* `first`: the traversal list of its nodes.  The red-black structure itself (TreeBinOps.tla) and the    *)
(* parasitic read-write lock (TreeBinLock.tla) are specified separately; here a tree bin is what the     *)
(* table-level protocol sees: one lock (the header's), a head that changes only when the bin is          *)
(* converted, insertion at the front of the list, and removals that may turn it back into a list bin.    *)
IsTree(b) == b # NULL /\ b # FWD /\ node[b].tree
RECURSIVE KeysOfN(_)
KeysOfN(p) == IF p = NULL \/ p = FWD THEN {} ELSE (IF node[p].tree THEN {} ELSE {node[p].key}) \cup KeysOfN(node[p].next)
RECURSIVE LenOfN(_)
LenOfN(p) == IF p = NULL \/ p = FWD THEN 0 ELSE (IF node[p].tree THEN 0 ELSE 1) + LenOfN(node[p].next)
RECURSIVE ListOfH(_, _)
ListOfH(nd, p) == IF p = NULL THEN <<>> ELSE <<p>> \o ListOfH(nd, nd[p].next)
RECURSIVE CloneList(_, _, _, _)
\* fresh list nodes for the entries lst[j..] (order kept): <<head, next free id, heap>>
CloneList(lst, j, nid, nd) ==
  IF j > Len(lst) THEN <<NULL, nid, nd>>
  ELSE LET r == CloneList(lst, j + 1, nid + 1, nd)  q == lst[j] IN
       <<nid, r[2], [r[3] EXCEPT ![nid] = [key |-> nd[q].key, val |-> nd[q].val, pl |-> nd[q].pl, tag |-> nd[q].tag,
                                           tree |-> FALSE, next |-> r[1]]]>>
\* a new tree bin (header + cloned nodes) for the entries of lst: <<header, next free id, heap>>
NewTree(lst, nid, nd) ==
  LET c == CloneList(lst, 1, nid + 1, nd) IN
  <<nid, c[2], [c[3] EXCEPT ![nid] = [key |-> 0, val |-> 0, pl |-> 0, tag |-> 0, tree |-> TRUE, next |-> c[1]]]>>
\* the bin after a removal from tree bin b left the entries `rem`: turned back into a list iff `small`
Untreeified(rem, nid, nd) == CloneList(rem, 1, nid, nd)
RECURSIVE FindIn(_, _, _, _)
\* <<node holding k or NULL, its predecessor, number of nodes walked>>
FindIn(p, pred, k, cnt) ==
  IF p = NULL THEN <<NULL, pred, cnt>>
  ELSE IF node[p].key = k THEN <<p, pred, cnt>> ELSE FindIn(node[p].next, p, k, cnt + 1)

(* critical section of put / try_insert / compute / remove on a list bin:     *)
(* re-validate the head, walk, perform the one write, unlock                  *)
Reval(t) ==
  /\ pc[t] = "Reval"
  /\ LET tb == loc[t].tb  o == CurOp(t)  i == BinI(tb, o.k)  b == loc[t].b IN
     IF tabs[tb].bins[i] # b
     THEN /\ lockOwner' = [lockOwner EXCEPT ![b] = 0] /\ Goto(t, "LoadBin")
          /\ UNCHANGED <<node, nextId, loc>> /\ UnchTab /\ UnchCtl /\ UnchHist
     ELSE LET f == FindIn(b, NULL, o.k, 0)  hit == f[1]  pred == f[2] IN
          CASE o.op = "insert" /\ hit # NULL ->        \* n.value.swap(new); bin_count = position of the hit
                 /\ node' = [node EXCEPT ![hit].val = o.v, ![hit].pl = o.pl]
                 /\ lockOwner' = [lockOwner EXCEPT ![b] = 0]
                 /\ IF (IF IsTree(b) THEN 2 ELSE f[3] + 1) >= TT
                    THEN /\ SetLoc(t, [loc[t] EXCEPT !.r = Res(1, node[hit].val, 0, 0, 0, 0), !.after = "finish", !.req = ReqCap(2 * TLen(tb))])
                         /\ Goto(t, IF TLen(tb) < MTC THEN "PsLoadSc" ELSE "TfLoadBin") /\ UNCHANGED <<res, doneOps, idx>>
                    ELSE Finish(t, Res(1, node[hit].val, 0, 0, 0, 0))
                 /\ Ghost(o.k, [v |-> o.v, tag |-> node[hit].tag, pl |-> o.pl])
                 /\ UNCHANGED <<nextId, before, mig, pubs, fins, joins>> /\ UnchTab /\ UnchCtl
            [] o.op = "try_insert" /\ hit # NULL ->    \* Exists: nothing written
                 /\ lockOwner' = [lockOwner EXCEPT ![b] = 0]
                 /\ Finish(t, Res(0, node[hit].val, 0, o.v, 0, 0))
                 /\ UNCHANGED <<node, nextId, before>> /\ UnchTab /\ UnchCtl /\ UnchRz
            [] o.op \in {"insert", "try_insert"} /\ hit = NULL ->   \* pred.next.store(new node)
                 /\ nextId <= MaxNodes
                 \* a list bin is extended at its tail, a tree bin at the front of its traversal list (first)
                 /\ node' = IF IsTree(b)
                            THEN [node EXCEPT ![nextId] = [key |-> o.k, val |-> o.v, pl |-> o.pl, tag |-> o.tag, tree |-> FALSE, next |-> node[b].next],
                                              ![b].next = nextId]
                            ELSE [node EXCEPT ![nextId] = [key |-> o.k, val |-> o.v, pl |-> o.pl, tag |-> o.tag, tree |-> FALSE, next |-> NULL],
                                              ![pred].next = nextId]
                 /\ nextId' = nextId + 1
                 /\ lockOwner' = [lockOwner EXCEPT ![b] = 0]
                 /\ SetLoc(t, [loc[t] EXCEPT !.d = 1, !.hint = TRUE, !.after = "", !.req = ReqCap(2 * TLen(tb)),
                                             !.r = IF o.op = "try_insert" THEN Res(1, o.v, 0, 0, 0, 0) ELSE NoRes])
                 \* bin_count = nodes in the bin before the append; an overfull bin of a short table: treeify_bin -> try_presize
                 /\ Goto(t, IF (IF IsTree(b) THEN 2 ELSE f[3]) >= TT THEN (IF TLen(tb) < MTC THEN "PsLoadSc" ELSE "TfLoadBin") ELSE "AcFetch")
                 /\ Ghost(o.k, [v |-> o.v, tag |-> o.tag, pl |-> o.pl])
                 /\ UnchTab /\ UnchCtl /\ UNCHANGED <<res, before, doneOps, idx, mig, pubs, fins, joins>>
            [] o.op \in {"remove", "remove_entry", "compute"} /\ hit = NULL ->
                 /\ lockOwner' = [lockOwner EXCEPT ![b] = 0]
                 /\ Finish(t, NoRes)
                 /\ UNCHANGED <<node, nextId, before>> /\ UnchTab /\ UnchCtl /\ UnchRz
            [] o.op = "compute" /\ hit # NULL /\ o.f # "none" ->    \* callback + n.value.swap
                 /\ node' = [node EXCEPT ![hit].val = o.v, ![hit].pl = IF o.f = "inc" THEN @ + 1 ELSE o.pl]
                 /\ lockOwner' = [lockOwner EXCEPT ![b] = 0]
                 /\ Finish(t, Res(1, o.v, 0, 0, node[hit].val, IF o.f = "inc" THEN node[hit].pl + 1 ELSE o.pl))
                 /\ Ghost(o.k, [v |-> o.v, tag |-> node[hit].tag, pl |-> IF o.f = "inc" THEN node[hit].pl + 1 ELSE o.pl])
                 /\ UNCHANGED <<nextId, before, mig, pubs, fins, joins>> /\ UnchTab /\ UnchCtl
            [] OTHER ->                                  \* removal: unlink (pred.next.store / store_bin)
                 /\ IF IsTree(b)
                    THEN \* remove_tree_node unlinks the node; "too small": the caller stores the untreeified list
                         LET nd1 == [node EXCEPT ![pred].next = node[hit].next]
                             rem == ListOfH(nd1, nd1[b].next) IN
                         \E small \in BOOLEAN :
                            /\ (Len(rem) <= SMIN => small) /\ (Len(rem) > SMAX => ~small)
                            /\ IF small
                               THEN LET c == Untreeified(rem, nextId, nd1) IN
                                    /\ c[2] <= MaxNodes + 1
                                    /\ tabs' = [tabs EXCEPT ![tb].bins[i] = c[1]] /\ node' = c[3] /\ nextId' = c[2]
                               ELSE node' = nd1 /\ UNCHANGED <<tabs, nextId>>
                    ELSE /\ IF pred = NULL
                            THEN tabs' = [tabs EXCEPT ![tb].bins[i] = node[hit].next] /\ UNCHANGED node
                            ELSE node' = [node EXCEPT ![pred].next = node[hit].next] /\ UNCHANGED tabs
                         /\ UNCHANGED nextId
                 /\ lockOwner' = [lockOwner EXCEPT ![b] = 0]
                 /\ SetLoc(t, [loc[t] EXCEPT !.d = -1, !.hint = (o.op = "compute"),
                        !.r = IF o.op = "compute" THEN Res(0, 0, 0, 0, node[hit].val, 0)
                              ELSE Res(1, node[hit].val, IF o.op = "remove_entry" THEN node[hit].tag ELSE 0, 0, 0, 0)])
                 /\ Goto(t, "AcFetch")
                 /\ Ghost(o.k, Absent)
                 /\ UNCHANGED <<ntabs, table, nextTable>> /\ UnchCtl
                 /\ UNCHANGED <<res, before, doneOps, idx, mig, pubs, fins, joins>>

(* ---- treeify_bin on a table of >= MTC bins: the list bin becomes a tree bin -------------------- *)
TfExit(t) ==
  IF loc[t].after = "finish" THEN Finish(t, loc[t].r) ELSE Goto(t, "AcFetch") /\ UNCHANGED <<loc, res, doneOps, idx>>
TfLoadBin(t) ==
  /\ pc[t] = "TfLoadBin"
  /\ LET tb == loc[t].tb  b == tabs[tb].bins[BinI(tb, CurOp(t).k)] IN
     IF b = NULL \/ b = FWD \/ IsTree(b) THEN TfExit(t)
     ELSE SetLoc(t, [loc[t] EXCEPT !.b = b]) /\ Goto(t, "TfLock") /\ UNCHANGED <<res, doneOps, idx>>
  /\ UnchHeap /\ UnchTab /\ UnchCtl /\ UNCHANGED before /\ UnchRz
TfLock(t) ==
  /\ pc[t] = "TfLock" /\ lockOwner[loc[t].b] = 0
  /\ lockOwner' = [lockOwner EXCEPT ![loc[t].b] = t] /\ Goto(t, "TfReval")
  /\ UNCHANGED <<node, nextId, loc>> /\ UnchTab /\ UnchCtl /\ UnchHist
TfReval(t) ==     \* still the head? clone the nodes into tree nodes, store the new TreeBin, unlock
  /\ pc[t] = "TfReval"
  /\ LET tb == loc[t].tb  i == BinI(tb, CurOp(t).k)  b == loc[t].b IN
     IF tabs[tb].bins[i] # b
     THEN UNCHANGED <<tabs, node, nextId>>
     ELSE LET c == NewTree(ListOfH(node, b), nextId, node) IN
          /\ c[2] <= MaxNodes + 1
          /\ tabs' = [tabs EXCEPT ![tb].bins[i] = c[1]] /\ node' = c[3] /\ nextId' = c[2]
  /\ lockOwner' = [lockOwner EXCEPT ![loc[t].b] = 0]
  /\ TfExit(t)
  /\ UNCHANGED <<ntabs, table, nextTable, before>> /\ UnchCtl /\ UnchRz

(* ---- add_count(n, hint) --------------------------------------------------- *)
AcFetch(t) ==     \* count.fetch_add / fetch_sub; the new count as the (fixed) code computes it
  /\ pc[t] = "AcFetch"
  /\ count' = count + loc[t].d
  /\ IF loc[t].hint
     THEN SetLoc(t, [loc[t] EXCEPT !.c = count + loc[t].d]) /\ Goto(t, "AcLoadSc") /\ UNCHANGED <<res, doneOps, idx>>
     ELSE IF CurOp(t).op \in RetainOps
     THEN SetLoc(t, [loc[t] EXCEPT !.tb = loc[t].itb]) /\ Goto(t, "ItNext") /\ UNCHANGED <<res, doneOps, idx>>   \* on with the traversal
     ELSE Finish(t, loc[t].r)
  /\ UNCHANGED <<sizeCtl, transferIndex, before>> /\ UnchHeap /\ UnchTab /\ UnchRz
AcDone(t) == Finish(t, loc[t].r) /\ UNCHANGED before /\ UnchRz
AcLoadSc(t) ==
  /\ pc[t] = "AcLoadSc"
  /\ IF loc[t].c < sizeCtl THEN AcDone(t)
     ELSE SetLoc(t, [loc[t] EXCEPT !.sc = sizeCtl]) /\ Goto(t, "AcLoadTable") /\ UnchHist
  /\ UnchHeap /\ UnchTab /\ UnchCtl
AcLoadTable(t) ==
  /\ pc[t] = "AcLoadTable"
  /\ LET tb == table  sc == loc[t].sc IN
     IF tb = 0 THEN AcDone(t)
     ELSE LET n == TLen(tb) IN
          IF \/ (ntabs >= MaxTabs /\ sc >= 0)
             \/ (sc < 0 /\ (sc = RS(n) + MAXRES \/ sc = RS(n) + 1))
             \/ (ACSTAMPCHECK /\ sc < 0 /\ (sc = -1 \/ StampN(sc) # n))
          THEN AcDone(t)      \* MAXIMUM_CAPACITY reached (model bound) / cannot join
          ELSE /\ SetLoc(t, [loc[t] EXCEPT !.xt = tb, !.n = n])
               /\ Goto(t, IF sc < 0 THEN "AcLoadNt" ELSE "AcCasStart") /\ UnchHist
  /\ UnchHeap /\ UnchTab /\ UnchCtl
AcLoadNt(t) ==
  /\ pc[t] = "AcLoadNt"
  /\ IF nextTable = 0 THEN AcDone(t)
     ELSE SetLoc(t, [loc[t] EXCEPT !.nt = nextTable]) /\ Goto(t, "AcLoadTi") /\ UnchHist
  /\ UnchHeap /\ UnchTab /\ UnchCtl
AcLoadTi(t) ==
  /\ pc[t] = "AcLoadTi"
  /\ IF transferIndex <= 0 THEN AcDone(t)
     ELSE Goto(t, "AcCasJoin") /\ UNCHANGED loc /\ UnchHist
  /\ UnchHeap /\ UnchTab /\ UnchCtl
AcCasJoin(t) ==
  /\ pc[t] = "AcCasJoin"
  /\ IF sizeCtl = loc[t].sc
     THEN /\ sizeCtl' = loc[t].sc + 1
          /\ joins' = joins \cup {<<loc[t].xt, StampN(loc[t].sc), t>>}
          /\ SetLoc(t, [loc[t] EXCEPT !.ret = "AcReload", !.i = 0, !.bound = 0, !.adv = TRUE, !.fin = FALSE])
          /\ Goto(t, "XClaim")
     ELSE /\ UNCHANGED <<sizeCtl, loc, joins>> /\ Goto(t, "AcReload")
  /\ UNCHANGED <<transferIndex, count, res, before, doneOps, idx, mig, pubs, fins, amap, ith>> /\ UnchHeap /\ UnchTab
AcCasStart(t) ==
  /\ pc[t] = "AcCasStart"
  /\ IF sizeCtl = loc[t].sc
     THEN /\ sizeCtl' = RS(loc[t].n) + 2
          /\ SetLoc(t, [loc[t] EXCEPT !.ret = "AcReload", !.nt = 0, !.i = 0, !.bound = 0, !.adv = TRUE, !.fin = FALSE])
          /\ Goto(t, "XSwapNext")
     ELSE /\ UNCHANGED <<sizeCtl, loc>> /\ Goto(t, "AcReload")
  /\ UNCHANGED <<transferIndex, count>> /\ UnchHeap /\ UnchTab /\ UnchHist
AcReload(t) ==    \* count = self.count.load(): another resize may be needed
  /\ pc[t] = "AcReload"
  /\ SetLoc(t, [loc[t] EXCEPT !.c = count]) /\ Goto(t, "AcLoadSc")
  /\ UnchHeap /\ UnchTab /\ UnchCtl /\ UnchHist

(* ---- help_transfer(loc.tb): a writer found a forwarding marker ------------ *)
HLoadNt(t) ==     \* table.next_table
  /\ pc[t] = "HLoadNt"
  /\ SetLoc(t, [loc[t] EXCEPT !.nt = tabs[loc[t].tb].next, !.xt = loc[t].tb, !.n = TLen(loc[t].tb)])
  /\ Goto(t, "HLoopNt")
  /\ UnchHeap /\ UnchTab /\ UnchCtl /\ UnchHist
HExit(t) ==
  IF CurOp(t).op = "clear"
  THEN SetLoc(t, [loc[t] EXCEPT !.tb = loc[t].nt, !.ix = 0]) /\ Goto(t, IF CLRWAIT THEN "ClrWait" ELSE "ClrLoadBin")   \* idx = 0 in the new table
  ELSE IF CurOp(t).op \in RetainOps
  THEN SetLoc(t, [loc[t] EXCEPT !.tb = loc[t].nt]) /\ Goto(t, "RtLoadBin")             \* replace_node's loop
  ELSE SetLoc(t, [loc[t] EXCEPT !.tb = loc[t].nt]) /\ Goto(t, "LoadBin")
HLoopNt(t) ==     \* next_table == self.next_table.load()
  /\ pc[t] = "HLoopNt"
  /\ IF loc[t].nt = nextTable THEN Goto(t, "HLoopTable") /\ UNCHANGED loc ELSE HExit(t)
  /\ UnchHeap /\ UnchTab /\ UnchCtl /\ UnchHist
HLoopTable(t) ==  \* table == self.table.load()
  /\ pc[t] = "HLoopTable"
  /\ IF loc[t].xt = table THEN Goto(t, "HLoadSc") /\ UNCHANGED loc ELSE HExit(t)
  /\ UnchHeap /\ UnchTab /\ UnchCtl /\ UnchHist
HLoadSc(t) ==
  /\ pc[t] = "HLoadSc"
  /\ LET sc == sizeCtl  n == loc[t].n IN
     IF sc >= 0 \/ (STAMPCHECK /\ (sc = -1 \/ StampN(sc) # n)) \/ sc = RS(n) + MAXRES \/ sc = RS(n) + 1
     THEN HExit(t)
     ELSE SetLoc(t, [loc[t] EXCEPT !.sc = sc]) /\ Goto(t, "HLoadTi")
  /\ UnchHeap /\ UnchTab /\ UnchCtl /\ UnchHist
HLoadTi(t) ==
  /\ pc[t] = "HLoadTi"
  /\ IF transferIndex <= 0 THEN HExit(t) ELSE Goto(t, "HCasJoin") /\ UNCHANGED loc
  /\ UnchHeap /\ UnchTab /\ UnchCtl /\ UnchHist
HCasJoin(t) ==
  /\ pc[t] = "HCasJoin"
  /\ IF sizeCtl = loc[t].sc
     THEN /\ sizeCtl' = loc[t].sc + 1
          /\ joins' = joins \cup {<<loc[t].xt, StampN(loc[t].sc), t>>}
          /\ SetLoc(t, [loc[t] EXCEPT !.ret = "HExitA", !.i = 0, !.bound = 0, !.adv = TRUE, !.fin = FALSE])
          /\ Goto(t, "XClaim")
     ELSE /\ UNCHANGED <<sizeCtl, loc, joins>> /\ Goto(t, "HLoopNt")
  /\ UNCHANGED <<transferIndex, count, res, before, doneOps, idx, mig, pubs, fins, amap, ith>> /\ UnchHeap /\ UnchTab
HExitA(t) == /\ pc[t] = "HExitA" /\ HExit(t) /\ UnchHeap /\ UnchTab /\ UnchCtl /\ UnchHist

(* ---- transfer(loc.xt, loc.nt) --------------------------------------------- *)
XSwapNext(t) ==   \* self.next_table.swap(new table); assert!(now_garbage.is_null())
  /\ pc[t] = "XSwapNext" /\ ntabs < MaxTabs
  /\ tabs' = [tabs EXCEPT ![ntabs + 1] = EmptyTab(2 * loc[t].n)]
  /\ ntabs' = ntabs + 1 /\ nextTable' = ntabs + 1
  /\ SetLoc(t, [loc[t] EXCEPT !.nt = ntabs + 1, !.c = nextTable]) /\ Goto(t, "XStoreTi")
  /\ UNCHANGED table /\ UnchHeap /\ UnchCtl /\ UnchHist
XStoreTi(t) ==
  /\ pc[t] = "XStoreTi"
  /\ transferIndex' = loc[t].n /\ Goto(t, "XLoadNt") /\ UNCHANGED loc
  /\ UNCHANGED <<sizeCtl, count>> /\ UnchHeap /\ UnchTab /\ UnchHist
XLoadNt(t) ==     \* the initiator re-reads what it just published: next_table_ptr = self.next_table.load()
  /\ pc[t] = "XLoadNt"
  /\ SetLoc(t, [loc[t] EXCEPT !.nt = nextTable]) /\ Goto(t, "XClaim")
  /\ UnchHeap /\ UnchTab /\ UnchCtl /\ UnchHist
XClaim(t) ==      \* while advance { i -= 1; ...; transfer_index.load }
  /\ pc[t] = "XClaim"
  /\ LET l == loc[t] IN
     IF ~l.adv THEN Goto(t, "XCheck") /\ UNCHANGED loc
     ELSE LET i1 == l.i - 1 IN
          IF i1 >= l.bound \/ l.fin
          THEN SetLoc(t, [l EXCEPT !.i = i1, !.adv = FALSE]) /\ Goto(t, "XCheck")
          ELSE IF transferIndex <= 0
               THEN SetLoc(t, [l EXCEPT !.i = -1, !.adv = FALSE]) /\ Goto(t, "XCheck")
               ELSE SetLoc(t, [l EXCEPT !.i = i1, !.c = transferIndex]) /\ Goto(t, "XCasTi")
  /\ UnchHeap /\ UnchTab /\ UnchCtl /\ UnchHist
XCasTi(t) ==      \* transfer_index.compare_exchange(next_index, next_bound); then i = next_index (D1)
  /\ pc[t] = "XCasTi"
  /\ LET l == loc[t]  ni == l.c  nb == IF ni > STRIDE THEN ni - STRIDE ELSE 0 IN
     IF transferIndex = ni
     THEN /\ transferIndex' = nb
          /\ SetLoc(t, [l EXCEPT !.bound = nb, !.i = ni, !.adv = FALSE]) /\ Goto(t, "XClaim")
     ELSE /\ UNCHANGED <<transferIndex, loc>> /\ Goto(t, "XClaim")
  /\ UNCHANGED <<sizeCtl, count>> /\ UnchHeap /\ UnchTab /\ UnchHist
XCheck(t) ==
  /\ pc[t] = "XCheck"
  /\ LET l == loc[t]  n == l.n  nn == TLen(l.nt) IN
     IF l.i < 0 \/ l.i >= n \/ l.i + n >= nn
     THEN Goto(t, IF l.fin THEN "XClearNext" ELSE "XLoadScLeave") /\ UNCHANGED loc
     ELSE Goto(t, "XLoadBin") /\ UNCHANGED loc
  /\ UnchHeap /\ UnchTab /\ UnchCtl /\ UnchHist
XLoadScLeave(t) ==
  /\ pc[t] = "XLoadScLeave"
  /\ SetLoc(t, [loc[t] EXCEPT !.sc = sizeCtl]) /\ Goto(t, "XCasLeave")
  /\ UnchHeap /\ UnchTab /\ UnchCtl /\ UnchHist
XCasLeave(t) ==   \* size_ctl.compare_exchange(sc, sc - 1); the last one out finishes
  /\ pc[t] = "XCasLeave"
  /\ LET l == loc[t] IN
     IF sizeCtl = l.sc
     THEN /\ sizeCtl' = l.sc - 1
          /\ IF (l.sc - 2) # RS(l.n)
             THEN Goto(t, l.ret) /\ UNCHANGED <<loc, fins>>
             ELSE /\ SetLoc(t, [l EXCEPT !.fin = TRUE, !.adv = TRUE, !.i = l.n]) /\ Goto(t, "XClaim")
                  /\ fins' = fins \cup {<<StampN(l.sc), t>>}
     ELSE UNCHANGED <<sizeCtl, loc, fins>> /\ Goto(t, "XCheck")
  /\ UNCHANGED <<transferIndex, count, res, before, doneOps, idx, mig, pubs, joins, amap, ith>> /\ UnchHeap /\ UnchTab
XLoadBin(t) ==
  /\ pc[t] = "XLoadBin"
  /\ LET l == loc[t]  b == tabs[l.xt].bins[l.i] IN
     /\ SetLoc(t, [l EXCEPT !.b = b])
     /\ Goto(t, IF b = NULL THEN "XCasFwd" ELSE IF b = FWD THEN "XAdv" ELSE "XLock")
  /\ UnchHeap /\ UnchTab /\ UnchCtl /\ UnchHist
XAdv(t) ==
  /\ pc[t] = "XAdv" /\ SetLoc(t, [loc[t] EXCEPT !.adv = TRUE]) /\ Goto(t, "XClaim")
  /\ UnchHeap /\ UnchTab /\ UnchCtl /\ UnchHist
XCasFwd(t) ==     \* cas_bin(i, null, moved)  (get_moved sets table.next_table first)
  /\ pc[t] = "XCasFwd"
  /\ LET l == loc[t] IN
     IF tabs[l.xt].bins[l.i] = NULL
     THEN /\ tabs' = [tabs EXCEPT ![l.xt].bins[l.i] = FWD, ![l.xt].next = l.nt]
          /\ mig' = mig \cup {<<l.xt, l.i, t>>}
          /\ SetLoc(t, [l EXCEPT !.adv = TRUE]) /\ Goto(t, "XClaim")
     ELSE /\ UNCHANGED <<tabs, mig>> /\ SetLoc(t, [l EXCEPT !.adv = FALSE]) /\ Goto(t, "XClaim")
  /\ UNCHANGED <<ntabs, table, nextTable, res, before, doneOps, idx, pubs, fins, joins, amap, ith>> /\ UnchHeap /\ UnchCtl
XLock(t) ==
  /\ pc[t] = "XLock" /\ lockOwner[loc[t].b] = 0
  /\ lockOwner' = [lockOwner EXCEPT ![loc[t].b] = t] /\ Goto(t, "XReval")
  /\ UNCHANGED <<node, nextId, loc>> /\ UnchTab /\ UnchCtl /\ UnchHist

RECURSIVE ListOf(_)
ListOf(p) == IF p = NULL THEN <<>> ELSE <<p>> \o ListOf(node[p].next)
Bit(k, n) == (HashOf[k] \div n) % 2
RECURSIVE Build(_, _, _, _, _, _, _)
\* clone the nodes before the last run onto the front of the low / high list (reverses their order)
Build(pre, n, j, lo, hi, nid, nd) ==
   IF j > Len(pre) THEN <<lo, hi, nid, nd>>
   ELSE LET q == pre[j]
            cl == [key |-> nd[q].key, val |-> nd[q].val, pl |-> nd[q].pl, tag |-> nd[q].tag, tree |-> FALSE, next |-> NULL]
        IN IF Bit(nd[q].key, n) = 0
           THEN Build(pre, n, j + 1, nid, hi, nid + 1, [nd EXCEPT ![nid] = [cl EXCEPT !.next = lo]])
           ELSE Build(pre, n, j + 1, lo, nid, nid + 1, [nd EXCEPT ![nid] = [cl EXCEPT !.next = hi]])
XReval(t) ==      \* re-validate, split the list (last run reused, the rest cloned)
  /\ pc[t] = "XReval"
  /\ LET l == loc[t]  b == l.b IN
     IF tabs[l.xt].bins[l.i] # b
     THEN \* the head changed while this thread waited for the lock: the same bin is looked at again
          \* (XSKIP = TRUE: it is skipped instead - self-test of ResizeSafe / GhostOK)
          /\ lockOwner' = [lockOwner EXCEPT ![b] = 0] /\ Goto(t, "XClaim") /\ UNCHANGED <<node, nextId>>
          /\ IF XSKIP THEN SetLoc(t, [l EXCEPT !.adv = TRUE]) ELSE UNCHANGED loc
     ELSE IF IsTree(b)
     THEN \* a tree bin: every node is cloned; a half of <= UT nodes becomes a list bin, a longer one a new tree bin,
          \* and when the other half is empty the old bin itself is reused
          LET lst == ListOfH(node, node[b].next)
              los == SelectSeq(lst, LAMBDA q : Bit(node[q].key, l.n) = 0)
              his == SelectSeq(lst, LAMBDA q : Bit(node[q].key, l.n) = 1)
              Half(half, other, nid, nd) ==
                 IF Len(half) = 0 THEN <<NULL, nid, nd>>
                 ELSE IF Len(half) <= UT THEN CloneList(half, 1, nid, nd)
                 ELSE IF Len(other) # 0 THEN NewTree(half, nid, nd)
                 ELSE <<b, nid, nd>>
              lo == Half(los, his, nextId, node)
              hi == Half(his, los, lo[2], lo[3])
          IN /\ hi[2] <= MaxNodes + 1
             /\ node' = hi[3] /\ nextId' = hi[2]
             /\ SetLoc(t, [l EXCEPT !.lo = lo[1], !.hi = hi[1]]) /\ Goto(t, "XStoreLo")
             /\ UNCHANGED lockOwner
     ELSE LET lst == ListOf(b)
              lastRunIdx == CHOOSE j \in 1..Len(lst) :
                               /\ \A m \in j..Len(lst) : Bit(node[lst[m]].key, l.n) = Bit(node[lst[j]].key, l.n)
                               /\ (j = 1 \/ Bit(node[lst[j-1]].key, l.n) # Bit(node[lst[j]].key, l.n))
              runBit == Bit(node[lst[lastRunIdx]].key, l.n)
              pre == SubSeq(lst, 1, lastRunIdx - 1)
              r == Build(pre, l.n, 1, IF runBit = 0 THEN lst[lastRunIdx] ELSE NULL,
                         IF runBit = 1 THEN lst[lastRunIdx] ELSE NULL, nextId, node)
          IN /\ r[3] <= MaxNodes + 1
             /\ node' = r[4] /\ nextId' = r[3]
             /\ SetLoc(t, [l EXCEPT !.lo = r[1], !.hi = r[2]]) /\ Goto(t, "XStoreLo")
             /\ UNCHANGED lockOwner
  /\ UnchTab /\ UnchCtl /\ UnchHist
XStoreLo(t) ==
  /\ pc[t] = "XStoreLo"
  /\ tabs' = [tabs EXCEPT ![loc[t].nt].bins[loc[t].i] = loc[t].lo] /\ Goto(t, "XStoreHi")
  /\ UNCHANGED <<ntabs, table, nextTable, loc>> /\ UnchHeap /\ UnchCtl /\ UnchHist
XStoreHi(t) ==
  /\ pc[t] = "XStoreHi"
  /\ tabs' = [tabs EXCEPT ![loc[t].nt].bins[loc[t].i + loc[t].n] = loc[t].hi] /\ Goto(t, "XStoreFwd")
  /\ UNCHANGED <<ntabs, table, nextTable, loc>> /\ UnchHeap /\ UnchCtl /\ UnchHist
XStoreFwd(t) ==   \* table.store_bin(i, moved); unlock
  /\ pc[t] = "XStoreFwd"
  /\ LET l == loc[t] IN
     /\ tabs' = [tabs EXCEPT ![l.xt].bins[l.i] = FWD, ![l.xt].next = l.nt]
     /\ mig' = mig \cup {<<l.xt, l.i, t>>}
     /\ lockOwner' = [lockOwner EXCEPT ![l.b] = 0]
     /\ SetLoc(t, [l EXCEPT !.adv = TRUE]) /\ Goto(t, "XClaim")
  /\ UNCHANGED <<ntabs, table, nextTable, node, nextId, res, before, doneOps, idx, pubs, fins, joins, amap, ith>> /\ UnchCtl
XClearNext(t) ==  \* self.next_table.store(null)
  /\ pc[t] = "XClearNext" /\ nextTable' = 0 /\ Goto(t, "XSwapTable")
  /\ UNCHANGED <<tabs, ntabs, table, loc>> /\ UnchHeap /\ UnchCtl /\ UnchHist
XSwapTable(t) ==  \* self.table.swap(next_table); retire the old one
  /\ pc[t] = "XSwapTable"
  /\ table' = loc[t].nt /\ pubs' = pubs \cup {<<loc[t].xt, table, loc[t].nt, t>>} /\ Goto(t, "XStoreSc")
  /\ UNCHANGED <<tabs, ntabs, nextTable, loc, res, before, doneOps, idx, mig, fins, joins, amap, ith>> /\ UnchHeap /\ UnchCtl
XStoreSc(t) ==    \* size_ctl.store(1.5 n)
  /\ pc[t] = "XStoreSc" /\ sizeCtl' = 2 * loc[t].n - (loc[t].n \div 2) /\ Goto(t, loc[t].ret)
  /\ UNCHANGED <<transferIndex, count, loc>> /\ UnchHeap /\ UnchTab /\ UnchHist



(* ---- reserve(additional) = try_presize(len() + additional) ----------------------------- *)
(* (o.pl = additional).  try_presize loops: give up while a resize / initialisation is running   *)
(* (size_ctl < 0); allocate the table if there is none; stop when the threshold already covers   *)
(* the request; otherwise start a resize of the current table and look again.                    *)
RsLoadCnt(t) ==   \* len(): count.load (negative transient counts read as 0)
  /\ pc[t] = "LoadTable" /\ CurOp(t).op = "reserve"
  /\ SetLoc(t, [loc[t] EXCEPT !.req = ReqCap((IF count > 0 THEN count ELSE 0) + CurOp(t).pl)]) /\ Goto(t, "PsLoadSc")
  /\ UnchHeap /\ UnchTab /\ UnchCtl /\ UnchHist
\* try_presize returns: to reserve's caller, to put's "Replaced" return, or on to put's add_count
PsExit(t) ==
  IF CurOp(t).op = "reserve" THEN Finish(t, NoRes)
  ELSE IF loc[t].after = "finish" THEN Finish(t, loc[t].r)
  ELSE Goto(t, "AcFetch") /\ UNCHANGED <<loc, res, doneOps, idx>>
PsLoadSc(t) ==
  /\ pc[t] = "PsLoadSc"
  /\ IF sizeCtl < 0 THEN PsExit(t)
     ELSE SetLoc(t, [loc[t] EXCEPT !.sc = sizeCtl]) /\ Goto(t, "PsLoadTable") /\ UNCHANGED <<res, doneOps, idx>>
  /\ UnchHeap /\ UnchTab /\ UnchCtl /\ UNCHANGED before /\ UnchRz
PsLoadTable(t) ==
  /\ pc[t] = "PsLoadTable"
  /\ LET l == loc[t] IN
     IF table = 0
     THEN SetLoc(t, [l EXCEPT !.xt = 0]) /\ Goto(t, "PsCasInit") /\ UNCHANGED <<res, doneOps, idx>>
     ELSE IF l.req <= l.sc \/ ntabs >= MaxTabs
          THEN PsExit(t)
          ELSE SetLoc(t, [l EXCEPT !.xt = table, !.n = TLen(table)]) /\ Goto(t, "PsRecheck") /\ UNCHANGED <<res, doneOps, idx>>
  /\ UnchHeap /\ UnchTab /\ UnchCtl /\ UNCHANGED before /\ UnchRz
PsCasInit(t) ==   \* size_ctl.compare_exchange(sc, -1)
  /\ pc[t] = "PsCasInit"
  /\ IF sizeCtl = loc[t].sc THEN sizeCtl' = -1 /\ Goto(t, "PsInitRecheck")
                           ELSE UNCHANGED sizeCtl /\ Goto(t, "PsLoadSc")
  /\ UNCHANGED <<transferIndex, count, loc>> /\ UnchHeap /\ UnchTab /\ UnchHist
PsInitRecheck(t) ==   \* self.table.load() != table ?
  /\ pc[t] = "PsInitRecheck"
  /\ Goto(t, IF table # 0 THEN "PsInitRestore" ELSE "PsInitSwap") /\ UNCHANGED loc
  /\ UnchHeap /\ UnchTab /\ UnchCtl /\ UnchHist
PsInitRestore(t) ==   \* somebody else allocated: size_ctl.store(sc), look again
  /\ pc[t] = "PsInitRestore"
  /\ sizeCtl' = loc[t].sc /\ Goto(t, "PsLoadSc") /\ UNCHANGED loc
  /\ UNCHANGED <<transferIndex, count>> /\ UnchHeap /\ UnchTab /\ UnchHist
PsInitSwap(t) ==      \* self.table.swap(new table of max(requested, initial) bins)
  /\ pc[t] = "PsInitSwap" /\ ntabs < MaxTabs
  /\ LET n == IF loc[t].req > loc[t].sc THEN loc[t].req ELSE loc[t].sc IN
     /\ tabs' = [tabs EXCEPT ![ntabs + 1] = EmptyTab(n)]
     /\ ntabs' = ntabs + 1 /\ table' = ntabs + 1
     /\ SetLoc(t, [loc[t] EXCEPT !.n = n])
  /\ Goto(t, "PsInitStoreSc")
  /\ UNCHANGED nextTable /\ UnchHeap /\ UnchCtl /\ UnchHist
PsInitStoreSc(t) ==
  /\ pc[t] = "PsInitStoreSc"
  /\ sizeCtl' = LF(loc[t].n) /\ Goto(t, "PsLoadSc") /\ UNCHANGED loc
  /\ UNCHANGED <<transferIndex, count>> /\ UnchHeap /\ UnchTab /\ UnchHist
PsRecheck(t) ==       \* table == self.table.load() ?
  /\ pc[t] = "PsRecheck"
  /\ Goto(t, IF table = loc[t].xt THEN "PsCasStart" ELSE "PsLoadSc") /\ UNCHANGED loc
  /\ UnchHeap /\ UnchTab /\ UnchCtl /\ UnchHist
PsCasStart(t) ==      \* size_ctl.compare_exchange(sc, rs + 2); transfer(table, null); look again
  /\ pc[t] = "PsCasStart"
  /\ IF sizeCtl = loc[t].sc
     THEN /\ sizeCtl' = RS(loc[t].n) + 2
          /\ SetLoc(t, [loc[t] EXCEPT !.ret = "PsLoadSc", !.nt = 0, !.i = 0, !.bound = 0, !.adv = TRUE, !.fin = FALSE])
          /\ Goto(t, "XSwapNext")
     ELSE /\ UNCHANGED <<sizeCtl, loc>> /\ Goto(t, "PsLoadSc")
  /\ UNCHANGED <<transferIndex, count>> /\ UnchHeap /\ UnchTab /\ UnchHist

(* ---- clear(): bin by bin; the null store is the commit point of every entry of the bin - *)
RECURSIVE GhostAll(_, _, _)
GhostAll(ks, am, it) ==     \* remove every key of ks from the ghost contents
  IF ks = {} THEN <<am, it>>
  ELSE LET k == CHOOSE k \in ks : TRUE IN
       GhostAll(ks \ {k}, [am EXCEPT ![k] = Absent],
                [u \in Threads |-> IF it[u].on THEN [it[u] EXCEPT !.touched = @ \cup {k}] ELSE it[u]])
ClrLoadTable(t) ==
  /\ pc[t] = "LoadTable" /\ CurOp(t).op = "clear"
  /\ IF table = 0 THEN Finish(t, NoRes)
     ELSE SetLoc(t, [loc[t] EXCEPT !.tb = table, !.ix = 0, !.d = 0]) /\ Goto(t, "ClrLoadBin") /\ UNCHANGED <<res, doneOps, idx>>
  /\ UnchHeap /\ UnchTab /\ UnchCtl /\ UNCHANGED before /\ UnchRz
ClrLoadBin(t) ==
  /\ pc[t] = "ClrLoadBin"
  /\ LET l == loc[t] IN
     IF l.ix >= TLen(l.tb)
     THEN \* done: add_count(delta, None) if anything was removed
          IF l.d = 0 THEN Finish(t, NoRes)
          ELSE SetLoc(t, [l EXCEPT !.hint = FALSE, !.r = NoRes]) /\ Goto(t, "AcFetch") /\ UNCHANGED <<res, doneOps, idx>>
     ELSE LET b == tabs[l.tb].bins[l.ix] IN
          /\ UNCHANGED <<res, doneOps, idx>>
          /\ IF b = NULL THEN SetLoc(t, [l EXCEPT !.ix = l.ix + 1]) /\ UNCHANGED pc
             ELSE IF b = FWD THEN SetLoc(t, [l EXCEPT !.b = b]) /\ Goto(t, "HLoadNt")
             ELSE SetLoc(t, [l EXCEPT !.b = b]) /\ Goto(t, "ClrLock")
  /\ UnchHeap /\ UnchTab /\ UnchCtl /\ UNCHANGED before /\ UnchRz
ClrWait(t) ==     \* while self.table.load() == table { yield }   (loc.xt = the table clear() was working on)
  /\ pc[t] = "ClrWait"
  /\ IF table # loc[t].xt THEN Goto(t, "ClrLoadBin") ELSE UNCHANGED pc
  /\ UNCHANGED loc /\ UnchHeap /\ UnchTab /\ UnchCtl /\ UnchHist
ClrLock(t) ==
  /\ pc[t] = "ClrLock" /\ lockOwner[loc[t].b] = 0
  /\ lockOwner' = [lockOwner EXCEPT ![loc[t].b] = t] /\ Goto(t, "ClrReval")
  /\ UNCHANGED <<node, nextId, loc>> /\ UnchTab /\ UnchCtl /\ UnchHist
ClrReval(t) ==    \* still the head? store_bin(idx, null); unlock; (walk and retire the nodes)
  /\ pc[t] = "ClrReval"
  /\ LET l == loc[t]  b == l.b IN
     IF tabs[l.tb].bins[l.ix] # b
     THEN /\ lockOwner' = [lockOwner EXCEPT ![b] = 0] /\ Goto(t, "ClrLoadBin")
          /\ UNCHANGED <<loc, tabs, amap, ith>>
     ELSE LET g == GhostAll(KeysOfN(b), amap, ith) IN
          /\ tabs' = [tabs EXCEPT ![l.tb].bins[l.ix] = NULL]
          /\ lockOwner' = [lockOwner EXCEPT ![b] = 0]
          /\ amap' = g[1] /\ ith' = g[2]
          /\ SetLoc(t, [l EXCEPT !.d = l.d - LenOfN(b), !.ix = l.ix + 1]) /\ Goto(t, "ClrLoadBin")
  /\ UNCHANGED <<ntabs, table, nextTable, node, nextId, res, before, doneOps, idx, mig, pubs, fins, joins>> /\ UnchCtl

(* ---- iterators: NodeIter (iter/traverser.rs) -------------------------------- *)
ItNew(t) ==       \* HashMap::iter: self.table.load; the iterator exists from here on
  /\ pc[t] = "LoadTable" /\ CurOp(t).op \in {"iter"} \cup RetainOps
  /\ LET n == IF table = 0 THEN 0 ELSE TLen(table) IN
     SetLoc(t, [loc[t] EXCEPT !.tb = table, !.stk = <<>>, !.prev = NULL, !.e = NULL, !.ix = 0, !.bi = 0, !.bl = n, !.bs = n])
  /\ ith' = [ith EXCEPT ![t] = [on |-> TRUE, done |-> FALSE, atc |-> {k \in DOMAIN amap : Present(amap, k)},
                                ever |-> {<<k, amap[k].v>> : k \in {c \in DOMAIN amap : Present(amap, c)}},
                                touched |-> {}, yl |-> <<>>, rm |-> {}]]
  /\ Goto(t, "ItNext")
  /\ UnchHeap /\ UnchTab /\ UnchCtl /\ UNCHANGED <<res, before, doneOps, idx, mig, pubs, fins, joins, amap>>
ItNext(t) ==      \* next(): prev.next.load (if there is a previous node)
  /\ pc[t] = "ItNext"
  /\ SetLoc(t, [loc[t] EXCEPT !.e = IF loc[t].prev = NULL THEN NULL ELSE node[loc[t].prev].next])
  /\ Goto(t, "ItLoop")
  /\ UnchHeap /\ UnchTab /\ UnchCtl /\ UnchHist
\* index arithmetic after looking at bin i of a table of n bins (recover_state / base stepping)
RECURSIVE Recover(_, _, _, _)
Recover(stk, ix, tb, n) ==    \* <<stack, index, table, n>> after popping the frames that are done
  IF stk = <<>> THEN <<stk, ix, tb, n>>
  ELSE LET s == stk[Len(stk)] IN
       IF ix + s[2] + TRAVOFF < n THEN <<stk, ix + s[2], tb, n>>
       ELSE Recover(SubSeq(stk, 1, Len(stk) - 1), s[3], s[1], s[2])
Advance(l, n) ==
  IF l.stk # <<>>
  THEN LET r == Recover(l.stk, l.ix, l.tb, n) IN
       IF r[1] # <<>> THEN [l EXCEPT !.stk = r[1], !.ix = r[2], !.tb = r[3]]
       ELSE LET ix2 == r[2] + l.bs IN
            IF ix2 >= r[4] THEN [l EXCEPT !.stk = r[1], !.tb = r[3], !.bi = l.bi + 1, !.ix = l.bi + 1]
            ELSE [l EXCEPT !.stk = r[1], !.tb = r[3], !.ix = ix2]
  ELSE LET ix2 == l.ix + l.bs IN
       IF ix2 >= n THEN [l EXCEPT !.bi = l.bi + 1, !.ix = l.bi + 1] ELSE [l EXCEPT !.ix = ix2]
ItLoop(t) ==      \* one turn of the loop: return e, or end, or t.bin(i)
  /\ pc[t] = "ItLoop"
  /\ LET l == loc[t] IN
     IF l.e # NULL
     THEN /\ SetLoc(t, [l EXCEPT !.prev = l.e]) /\ Goto(t, "ItYield") /\ UNCHANGED <<res, doneOps, idx, ith>>
     ELSE IF l.bi >= l.bl \/ l.tb = 0 \/ TLen(l.tb) <= l.ix
          THEN /\ Finish(t, NoRes) /\ ith' = [ith EXCEPT ![t].on = FALSE, ![t].done = TRUE]
          ELSE LET n == TLen(l.tb)  b == tabs[l.tb].bins[l.ix] IN
               /\ UNCHANGED <<res, doneOps, idx, ith>>
               /\ IF b = FWD
                  THEN SetLoc(t, [l EXCEPT !.b = b]) /\ Goto(t, "ItDescend")
                  ELSE SetLoc(t, [Advance(l, n) EXCEPT !.e = IF IsTree(b) THEN node[b].next ELSE b]) /\ UNCHANGED pc
  /\ UnchHeap /\ UnchTab /\ UnchCtl /\ UNCHANGED <<before, mig, pubs, fins, joins, amap>>
ItDescend(t) ==   \* forwarding marker: t.next_table; push_state(t, i, n)
  /\ pc[t] = "ItDescend"
  /\ LET l == loc[t] IN
     SetLoc(t, [l EXCEPT !.tb = tabs[l.tb].next, !.prev = NULL, !.stk = Append(l.stk, <<l.tb, TLen(l.tb), l.ix>>)])
  /\ Goto(t, "ItLoop")
  /\ UnchHeap /\ UnchTab /\ UnchCtl /\ UnchHist
ItYield(t) ==     \* node.value.load: the pair handed to the caller / to retain's predicate
  /\ pc[t] = "ItYield"
  /\ LET p == loc[t].prev  o == CurOp(t)  k == node[p].key  v == node[p].val IN
     /\ ith' = [ith EXCEPT ![t].yl = Append(@, <<k, v>>)]
     /\ IF o.op \in RetainOps /\ ~Keep(o.f, k)
        THEN SetLoc(t, [loc[t] EXCEPT !.itb = loc[t].tb, !.rk = k, !.ov = v]) /\ Goto(t, "RtLoadTable")
        ELSE Goto(t, "ItNext") /\ UNCHANGED loc
  /\ UnchHeap /\ UnchTab /\ UnchCtl /\ UNCHANGED <<res, before, doneOps, idx, mig, pubs, fins, joins, amap>>

(* ---- retain / retain_force: replace_node(k, None, observed value) for a rejected entry -------- *)
(* RETAINCHECK = FALSE drops the observed-value test of plain retain (self-test of RetainOK).       *)
BackToIter(t) == SetLoc(t, [loc[t] EXCEPT !.tb = loc[t].itb]) /\ Goto(t, "ItNext")
RtLoadTable(t) ==
  /\ pc[t] = "RtLoadTable"
  /\ IF table = 0 THEN BackToIter(t) ELSE SetLoc(t, [loc[t] EXCEPT !.tb = table]) /\ Goto(t, "RtLoadBin")
  /\ UnchHeap /\ UnchTab /\ UnchCtl /\ UnchHist
RtLoadBin(t) ==
  /\ pc[t] = "RtLoadBin"
  /\ LET tb == loc[t].tb  b == tabs[tb].bins[BinI(tb, loc[t].rk)] IN
     IF b = NULL THEN BackToIter(t)
     ELSE SetLoc(t, [loc[t] EXCEPT !.b = b]) /\ Goto(t, IF b = FWD THEN "HLoadNt" ELSE "RtLock")
  /\ UnchHeap /\ UnchTab /\ UnchCtl /\ UnchHist
RtLock(t) ==
  /\ pc[t] = "RtLock" /\ lockOwner[loc[t].b] = 0
  /\ lockOwner' = [lockOwner EXCEPT ![loc[t].b] = t] /\ Goto(t, "RtReval")
  /\ UNCHANGED <<node, nextId, loc>> /\ UnchTab /\ UnchCtl /\ UnchHist
RtReval(t) ==     \* still the head? find the key; remove it if (retain) its value is still the judged one
  /\ pc[t] = "RtReval"
  /\ LET l == loc[t]  tb == l.tb  k == l.rk  i == BinI(tb, k)  b == l.b  o == CurOp(t) IN
     IF tabs[tb].bins[i] # b
     THEN /\ lockOwner' = [lockOwner EXCEPT ![b] = 0] /\ Goto(t, "RtLoadBin")
          /\ UNCHANGED <<node, nextId, loc>> /\ UnchTab /\ UnchCtl /\ UnchHist
     ELSE LET f == FindIn(b, NULL, k, 0)  hit == f[1]  pred == f[2] IN
          IF hit = NULL \/ (o.op = "retain" /\ RETAINCHECK /\ node[hit].val # l.ov)
          THEN /\ lockOwner' = [lockOwner EXCEPT ![b] = 0] /\ BackToIter(t)
               /\ UNCHANGED <<node, nextId>> /\ UnchTab /\ UnchCtl /\ UnchHist
          ELSE /\ IF IsTree(b)
                  THEN LET nd1 == [node EXCEPT ![pred].next = node[hit].next]
                           rem == ListOfH(nd1, nd1[b].next) IN
                       \E small \in BOOLEAN :
                          /\ (Len(rem) <= SMIN => small) /\ (Len(rem) > SMAX => ~small)
                          /\ IF small
                             THEN LET c == Untreeified(rem, nextId, nd1) IN
                                  /\ c[2] <= MaxNodes + 1
                                  /\ tabs' = [tabs EXCEPT ![tb].bins[i] = c[1]] /\ node' = c[3] /\ nextId' = c[2]
                             ELSE node' = nd1 /\ UNCHANGED <<tabs, nextId>>
                  ELSE /\ IF pred = NULL
                          THEN tabs' = [tabs EXCEPT ![tb].bins[i] = node[hit].next] /\ UNCHANGED node
                          ELSE node' = [node EXCEPT ![pred].next = node[hit].next] /\ UNCHANGED tabs
                       /\ UNCHANGED nextId
               /\ lockOwner' = [lockOwner EXCEPT ![b] = 0]
               /\ SetLoc(t, [l EXCEPT !.d = -1, !.hint = FALSE]) /\ Goto(t, "AcFetch")
               /\ amap' = [amap EXCEPT ![k] = Absent]
               /\ ith' = [u \in Threads |->
                            IF u = t THEN [ith[u] EXCEPT !.touched = @ \cup {k}, !.rm = @ \cup {<<k, node[hit].val, o.f, o.op = "retain_force">>}]
                            ELSE IF ith[u].on THEN [ith[u] EXCEPT !.touched = @ \cup {k}] ELSE ith[u]]
               /\ UNCHANGED <<ntabs, table, nextTable>> /\ UnchCtl
               /\ UNCHANGED <<res, before, doneOps, idx, mig, pubs, fins, joins>>

Step(t) ==
   \/ Call(t) \/ LoadTable(t) \/ ClrLoadTable(t) \/ ClrLoadBin(t) \/ ClrWait(t) \/ ClrLock(t) \/ ClrReval(t) \/ ItNew(t) \/ ItNext(t) \/ ItLoop(t) \/ ItDescend(t) \/ ItYield(t)
   \/ InitLoadTable(t) \/ InitLoadSc(t) \/ InitSpin(t) \/ InitCasSc(t) \/ InitRecheck(t) \/ InitStoreTable(t) \/ InitStoreSc(t)
   \/ LoadBin(t) \/ GetFwd(t) \/ PutCas(t) \/ TiFast(t) \/ Walk(t) \/ LoadVal(t) \/ Lock(t) \/ Reval(t)
   \/ AcFetch(t) \/ AcLoadSc(t) \/ AcLoadTable(t) \/ AcLoadNt(t) \/ AcLoadTi(t) \/ AcCasJoin(t) \/ AcCasStart(t) \/ AcReload(t)
   \/ HLoadNt(t) \/ HLoopNt(t) \/ HLoopTable(t) \/ HLoadSc(t) \/ HLoadTi(t) \/ HCasJoin(t) \/ HExitA(t)
   \/ XSwapNext(t) \/ XStoreTi(t) \/ XLoadNt(t) \/ XClaim(t) \/ XCasTi(t) \/ XCheck(t) \/ XLoadScLeave(t) \/ XCasLeave(t)
   \/ XLoadBin(t) \/ XAdv(t) \/ XCasFwd(t) \/ XLock(t) \/ XReval(t) \/ XStoreLo(t) \/ XStoreHi(t) \/ XStoreFwd(t)
   \/ XClearNext(t) \/ XSwapTable(t) \/ XStoreSc(t)
   \/ TfLoadBin(t) \/ TfLock(t) \/ TfReval(t)
   \/ RtLoadTable(t) \/ RtLoadBin(t) \/ RtLock(t) \/ RtReval(t)
   \/ RsLoadCnt(t) \/ PsLoadSc(t) \/ PsLoadTable(t) \/ PsCasInit(t) \/ PsInitRecheck(t) \/ PsInitRestore(t)
   \/ PsInitSwap(t) \/ PsInitStoreSc(t) \/ PsRecheck(t) \/ PsCasStart(t)
Next == \E t \in Threads : Step(t)
Spec == Init /\ [][Next]_vars
\* C11: weak fairness of every thread (a spinning loser is fair only together with the winner)
LiveSpec == Spec /\ \A t \in Threads : WF_vars(Step(t))

(* ------------------------------------------------------------------------ *)
(* properties                                                               *)
AllDone == \A t \in Threads : pc[t] = "idle" /\ idx[t] > Len(Prog[t])
AllOps == {<<t, i>> \in (Threads \X (1..4)) : i <= Len(Prog[t])}
OpOf(o) == Prog[o[1]][o[2]]
AllKeys == {OpOf(o).k : o \in AllOps} \cup {InitKeys[j].k : j \in 1..NK}
Abs0 == [k \in AllKeys |->
           IF \E j \in 1..NK : InitKeys[j].k = k
           THEN LET j == CHOOSE j \in 1..NK : InitKeys[j].k = k IN [v |-> InitKeys[j].v, tag |-> 1, pl |-> InitKeys[j].pl]
           ELSE Absent]
RECURSIVE Lin(_, _)
\* C01 / C08: some order of the completed calls respects real time and explains every result
Lin(m, remaining) ==
  IF remaining = {} THEN TRUE
  ELSE \E o \in remaining :
        /\ \A o2 \in remaining : <<o2, o>> \notin before
        /\ Matches(OpOf(o), res[o], ApplyResult(m, OpOf(o)), FALSE)
        /\ Lin(ApplyState(m, OpOf(o)), remaining \ {o})
\* (iterations and clear() are not atomic: they are judged by IterWeak / GhostOK / QuiescentOK; programs
\* containing clear() are checked without Linearizable)
HasClear == \E o \in AllOps : OpOf(o).op \in {"clear"} \cup RetainOps
Linearizable == (AllDone /\ ~HasClear) => Lin(Abs0, {o \in AllOps : OpOf(o).op \notin {"iter", "reserve"}})

\* C11 (safety part): no reachable state in which an unfinished thread set is stuck
NoDeadlock == ~AllDone => ENABLED Next
Termination == <>AllDone

\* C10: every bin of a table is migrated exactly once, one publication per table, all bins first;
\* one finishing thread per generation; helpers join the resize of their own table only
MigOnce == \A a, b \in mig : (a[1] = b[1] /\ a[2] = b[2]) => a = b
PubOnce == \A a, b \in pubs : a[1] = b[1] => a = b
PubCurrent == \A p \in pubs : p[1] = p[2]            \* the table replaced is the current one
PubComplete == \A p \in pubs : \A i \in 0..TLen(p[1])-1 : \E m \in mig : m[1] = p[1] /\ m[2] = i
FinOnce == \A a, b \in fins : a[1] = b[1] => a = b
JoinOwn == \A j \in joins : TLen(j[1]) = j[2]
Doubling == \A p \in pubs : TLen(p[3]) = 2 * TLen(p[1])
ResizeSafe == MigOnce /\ PubOnce /\ PubCurrent /\ PubComplete /\ FinOnce /\ JoinOwn /\ Doubling

\* C05: at quiescence the table is well formed and count / lookups / contents agree
RECURSIVE KeysOf(_)
KeysOf(p) == IF p = NULL \/ p = FWD THEN {} ELSE (IF node[p].tree THEN {} ELSE {node[p].key}) \cup KeysOf(node[p].next)
RECURSIVE LenOf(_)
LenOf(p) == IF p = NULL \/ p = FWD THEN 0 ELSE (IF node[p].tree THEN 0 ELSE 1) + LenOf(node[p].next)
QuiescentOK == AllDone =>
   /\ nextTable = 0 /\ sizeCtl >= 0
   /\ \A id \in Ids : lockOwner[id] = 0
   /\ table # 0 =>
        /\ sizeCtl = LF(TLen(table))
        /\ \A i \in 0..TLen(table)-1 :
             /\ tabs[table].bins[i] # FWD
             /\ \A k \in KeysOf(tabs[table].bins[i]) : HashOf[k] % TLen(table) = i
             /\ LenOf(tabs[table].bins[i]) = Cardinality(KeysOf(tabs[table].bins[i]))     \* no key twice
        /\ count = Cardinality(UNION {KeysOf(tabs[table].bins[i]) : i \in 0..TLen(table)-1})
   /\ table = 0 => count = 0

\* C07: a finished iteration yielded exactly once every key that was present at its creation and
\* untouched throughout, and only pairs that were in the map at some moment since its creation
Count(sq, k) == Cardinality({i \in 1..Len(sq) : sq[i][1] = k})
IterWeak ==
  \A t \in Threads : ith[t].done =>
    /\ \A k \in ith[t].atc \ ith[t].touched : Count(ith[t].yl, k) = 1
    /\ \A i \in 1..Len(ith[t].yl) : ith[t].yl[i] \in ith[t].ever
\* C13: a retain call removes only entries its predicate rejected, and (plain retain) only the value instance
\* the predicate was shown; retain_force removes a rejected key whatever its current value
RetainOK ==
  \A t \in Threads : \A r \in ith[t].rm :
     /\ ~Keep(r[3], r[1])
     /\ \E i \in 1..Len(ith[t].yl) : ith[t].yl[i][1] = r[1] /\ (r[4] \/ ith[t].yl[i][2] = r[2])
\* the ghost contents agree with what lookups find at quiescence
GhostOK == AllDone =>
  \A k \in DOMAIN amap :
     Present(amap, k) <=> (table # 0 /\ k \in KeysOf(tabs[table].bins[HashOf[k] % TLen(table)]))

\* C03 at the level of the table protocol: what clear() retires - the nodes of the bin it empties and their values - is
\* no longer reachable from a live table (the current one, the next one) once the bin has been emptied
RECURSIVE NodesOfH(_, _)
NodesOfH(nd, p) == IF p = NULL \/ p = FWD THEN {} ELSE {p} \cup NodesOfH(nd, nd[p].next)
ClearSafe ==
  [][\A t \in Threads :
       (pc[t] = "ClrReval" /\ tabs[loc[t].tb].bins[loc[t].ix] = loc[t].b /\ tabs'[loc[t].tb].bins[loc[t].ix] = NULL) =>
          LET gone == NodesOfH(node, loc[t].b)
              gonev == {node[q].val : q \in {x \in gone : ~node[x].tree}}
              live == {table', nextTable'} \ {0}
              reach == UNION {UNION {NodesOfH(node', tabs'[tb].bins[i]) : i \in 0..(tabs'[tb].len - 1)} : tb \in live}
          IN /\ reach \cap gone = {}
             /\ {node'[q].val : q \in {x \in reach : ~node'[x].tree}} \cap gonev = {}
    ]_vars

\* C14: the table never shrinks; it is replaced only by one of twice the length
NeverShrinks == [][table' # table => (table = 0 \/ TLen(table') = 2 * TLen(table))]_vars

\* C12: a lookup is never disabled, whatever the other threads are doing
ReadersNeverBlock ==
  \A t \in Threads : (pc[t] # "idle" /\ idx[t] <= Len(Prog[t]) /\ IsRead(CurOp(t))) => ENABLED Step(t)
=============================================================================
