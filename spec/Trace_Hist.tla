---------------------------- MODULE Trace_Hist ----------------------------
(***************************************************************************)
(* History monitor for C07 (weakly consistent iterators) and C13 (retain / *)
(* retain_force), on top of the linearizability monitor of Trace_Lin:      *)
(* per-key calls linearize at a silent Lin(t) between call and return.     *)
(*                                                                         *)
(* retain(f) / retain_force(f):  call, then for every inspected entry an   *)
(* event pred(t,k,v,keep); each pred with keep = 0 is followed - before    *)
(* the call's next pred or its return - by the silent step RetainLin(t):   *)
(*   retain:       remove k iff the value stored *now* is still v          *)
(*   retain_force: remove k if it is present                               *)
(* so an entry whose value was replaced after f inspected it, or for which *)
(* f returned true, is never removed by that call.                         *)
(*                                                                         *)
(* iterators: call(iter|keys|values), yield(t,k,tag,v)*, ret.  Per running *)
(* iterator: atc = keys present at creation, ever = entries <<k,tag,v>>    *)
(* that were in the map at some moment since creation, touched = keys      *)
(* whose entry changed since creation or on which an update call was open  *)
(* at some moment of the iteration, cnt = yields per key.                  *)
(*   yield requires the entry to be in `ever`;                             *)
(*   return requires every key of atc \ touched to be yielded exactly once.*)
(* A crash / panic inside the iteration is a rejection (no ret event).     *)
(***************************************************************************)
EXTENDS AbsOps, FiniteSets, TLC, Json, IOUtils

Traces == ndJsonDeserialize(IOEnv.TRACES)
Diag == "DIAG" \in DOMAIN IOEnv /\ IOEnv.DIAG = "1"

VARIABLES tr, l, abs, pend
vars == <<tr, l, abs, pend>>

Ev == Traces[tr].ev
SeqToSet(s) == {s[i] : i \in 1..Len(s)}
IsSet == Traces[tr].set = 1
Keys == SeqToSet(Traces[tr].keys)
None == <<>>
Idle == [st |-> "idle"]
IterOps == {"iter", "keys", "values"}
RetainOps == {"retain", "retain_force"}

Init ==
  /\ tr \in 1..Len(Traces)
  /\ l = 1
  /\ abs = [k \in SeqToSet(Traces[tr].keys) |-> Absent]
  /\ pend = [t \in SeqToSet(Traces[tr].threads) |-> Idle]

IsEv(kind) == l <= Len(Ev) /\ Ev[l].e = kind

Entry(a, k) == <<k, a[k].tag, a[k].v>>
\* every running iterator learns about the entries of a2 that differ from a
Notify(p, a, a2) ==
  LET ch == {k \in DOMAIN a : a[k] # a2[k]} IN
  [u \in DOMAIN p |->
     IF p[u].st \in {"iter", "retain"}
     THEN [p[u] EXCEPT !.ever = @ \cup {Entry(a2, k) : k \in {c \in ch : Present(a2, c)}},
                       !.touched = @ \cup ch]
     ELSE p[u]]

\* keys some other thread's update call is working on right now (called, not yet returned): such a key is
\* not "untouched" for an iteration that overlaps the call, wherever the update takes effect (a removal from a
\* tree bin, for one, unlinks the node from the traversal list before lookups stop finding it)
Busy(p) == {p[u].o.k : u \in {w \in DOMAIN p : p[w].st \in {"called", "lin"} /\ p[w].o.op \in UpdateOps}}
\* a starting update call touches its key for every running traversal
Touch(p, e) ==
  IF e.op \in UpdateOps
  THEN [u \in DOMAIN p |-> IF p[u].st \in {"iter", "retain"} THEN [p[u] EXCEPT !.touched = @ \cup {e.k}] ELSE p[u]]
  ELSE p
Call ==
  /\ IsEv("call")
  /\ LET e == Ev[l] IN
     /\ pend[e.t].st = "idle"
     /\ pend' = [Touch(pend, e) EXCEPT ![e.t] =
          IF e.op \in PerKeyOps THEN [st |-> "called", o |-> e]
          ELSE IF e.op \in RetainOps
               THEN [st |-> "retain", force |-> (e.op = "retain_force"), todo |-> None,
                     atc |-> {k \in DOMAIN abs : Present(abs, k)},
                     ever |-> {Entry(abs, k) : k \in {c \in DOMAIN abs : Present(abs, c)}},
                     touched |-> Busy(pend), cnt |-> [k \in DOMAIN abs |-> 0]]
          ELSE IF e.op \in IterOps
               THEN [st |-> "iter", op |-> e.op,
                     atc |-> {k \in DOMAIN abs : Present(abs, k)},
                     ever |-> {Entry(abs, k) : k \in {c \in DOMAIN abs : Present(abs, c)}},
                     touched |-> Busy(pend), cnt |-> [k \in DOMAIN abs |-> 0]]
               ELSE [st |-> "other"]]
  /\ l' = l + 1
  /\ UNCHANGED <<tr, abs>>

Lin(t) ==
  /\ pend[t].st = "called"
  /\ LET a2 == ApplyState(abs, pend[t].o) IN
     /\ abs' = a2
     /\ pend' = [Notify(pend, abs, a2) EXCEPT ![t] = [st |-> "lin", o |-> pend[t].o, x |-> ApplyResult(abs, pend[t].o)]]
  /\ UNCHANGED <<tr, l>>

Pred ==
  /\ IsEv("pred")
  /\ l' = l + 1
  /\ UNCHANGED <<tr, abs>>
  /\ LET e == Ev[l] IN
     /\ pend[e.t].st = "retain" /\ pend[e.t].todo = None
     \* the predicate is shown an entry that was in the map at some moment since the call (the
     \* traversal is weakly consistent: it may be an older value instance than the current one).
     \* For sets the instance is not observable: any instance the key had since the call.
     /\ \E x \in pend[e.t].ever :
          /\ x[1] = e.k /\ (IsSet \/ x[3] = e.v)
          /\ pend' = [pend EXCEPT ![e.t].todo = IF e.keep = 0 THEN <<e.k, x[3]>> ELSE None,
                                   ![e.t].cnt = [@ EXCEPT ![e.k] = @ + 1]]

RetainLin(t) ==
  /\ pend[t].st = "retain" /\ pend[t].todo # None
  /\ LET k == pend[t].todo[1]  v == pend[t].todo[2]
         rm == Present(abs, k) /\ (pend[t].force \/ abs[k].v = v)
         a2 == IF rm THEN [abs EXCEPT ![k] = Absent] ELSE abs
     IN
     /\ abs' = a2
     /\ pend' = [Notify(pend, abs, a2) EXCEPT ![t].todo = None]
  /\ UNCHANGED <<tr, l>>

Yield ==
  /\ IsEv("yield")
  /\ LET e == Ev[l]  p == pend[e.t] IN
     /\ p.st = "iter"
     /\ CASE p.op = "iter" /\ ~IsSet -> <<e.k, e.tag, e.v>> \in p.ever
          [] p.op = "iter" /\ IsSet -> \E x \in p.ever : x[1] = e.k /\ x[2] = e.tag
          [] p.op = "keys" -> \E x \in p.ever : x[1] = e.k /\ x[2] = e.tag
          [] p.op = "values" -> \E x \in p.ever : x[3] = e.v
     /\ pend' = [pend EXCEPT ![e.t].cnt =
                   IF p.op = "values"
                   THEN [k \in DOMAIN @ |-> @[k] + (IF \E x \in p.ever : x[1] = k /\ x[3] = e.v THEN 1 ELSE 0)]
                   ELSE [@ EXCEPT ![e.k] = @ + 1]]
  /\ l' = l + 1
  /\ UNCHANGED <<tr, abs>>

Ret ==
  /\ IsEv("ret")
  /\ LET e == Ev[l]  p == pend[e.t] IN
     /\ e.panic = 0
     /\ CASE p.st = "lin" ->
               /\ Matches(p.o, e, p.x, IsSet)
               /\ (p.o.op = "compute") => e.ncb = (IF p.x.seen = 0 THEN 0 ELSE 1)
          \* the traversal inside retain is weakly consistent too: every entry that was present
          \* and untouched during the whole call was shown to the predicate exactly once
          [] p.st = "retain" -> p.todo = None /\ \A k \in p.atc \ p.touched : p.cnt[k] = 1
          [] p.st = "iter" ->
               \* uids are unique per value instance, so for values() the count per key is exact too
               \A k \in p.atc \ p.touched : p.cnt[k] = 1
          [] p.st = "other" -> TRUE
          [] OTHER -> FALSE
     /\ pend' = [pend EXCEPT ![e.t] = Idle]
  /\ l' = l + 1
  /\ UNCHANGED <<tr, abs>>

Next == Call \/ Ret \/ Pred \/ Yield \/ \E t \in DOMAIN pend : Lin(t) \/ RetainLin(t)
Spec == Init /\ [][Next]_vars

Done == l > Len(Ev)
Report ==
  /\ Done => PrintT(<<"ACCEPT", Traces[tr].id>>)
  /\ Diag => PrintT(<<"AT", Traces[tr].id, l>>)
=============================================================================
