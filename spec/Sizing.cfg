SPECIFICATION Spec
CONSTANT MaxC = 70000
