----------------------------- MODULE MC_Flurry -----------------------------
(* Model-checking instances of Flurry.tla: programs, hash functions, initial contents. *)
EXTENDS Flurry

Ins(k, v) == [op |-> "insert", k |-> k, tag |-> 1, v |-> v, pl |-> 0, f |-> "-"]
Ins2(k, v) == [op |-> "insert", k |-> k, tag |-> 2, v |-> v, pl |-> 0, f |-> "-"]
TIns(k, v) == [op |-> "try_insert", k |-> k, tag |-> 2, v |-> v, pl |-> 0, f |-> "-"]
Rem(k) == [op |-> "remove", k |-> k, tag |-> 0, v |-> 0, pl |-> 0, f |-> "-"]
RemE(k) == [op |-> "remove_entry", k |-> k, tag |-> 0, v |-> 0, pl |-> 0, f |-> "-"]
Get(k) == [op |-> "get", k |-> k, tag |-> 0, v |-> 0, pl |-> 0, f |-> "-"]
Gkv(k) == [op |-> "get_key_value", k |-> k, tag |-> 0, v |-> 0, pl |-> 0, f |-> "-"]
Has(k) == [op |-> "contains_key", k |-> k, tag |-> 0, v |-> 0, pl |-> 0, f |-> "-"]
Inc(k, v) == [op |-> "compute", k |-> k, tag |-> 0, v |-> v, pl |-> 0, f |-> "inc"]
CNone(k) == [op |-> "compute", k |-> k, tag |-> 0, v |-> 0, pl |-> 0, f |-> "none"]
Clear == [op |-> "clear", k |-> 1, tag |-> 0, v |-> 0, pl |-> 0, f |-> "-"]
Iter == [op |-> "iter", k |-> 1, tag |-> 0, v |-> 0, pl |-> 0, f |-> "-"]
Retain(f) == [op |-> "retain", k |-> 1, tag |-> 0, v |-> 0, pl |-> 0, f |-> f]
RetainF(f) == [op |-> "retain_force", k |-> 1, tag |-> 0, v |-> 0, pl |-> 0, f |-> f]
Reserve(n) == [op |-> "reserve", k |-> 1, tag |-> 0, v |-> 0, pl |-> n, f |-> "-"]
E(k, v) == [k |-> k, v |-> v, pl |-> 0]

\* all keys in one bin / alternating bins
HashSame == [k \in 1..9 |-> 0]
HashId == [k \in 1..9 |-> k]

\* ---- list bins, no resize: 3 threads x 2 ops on colliding keys
ProgList1 == (1 :> <<Ins(1, 11), Rem(2)>>) @@ (2 :> <<Ins(2, 21), Get(1)>>) @@ (3 :> <<Rem(1), Gkv(2)>>)
ProgList2 == (1 :> <<TIns(1, 11), Inc(1, 12)>>) @@ (2 :> <<Ins2(1, 21), CNone(1)>>) @@ (3 :> <<Inc(1, 31), Has(1)>>)
ProgList3 == (1 :> <<Ins(1, 11), Ins(2, 12), Rem(1)>>) @@ (2 :> <<RemE(2), Ins(3, 23), Get(2)>>)
\* ---- lazy initialisation race
\* two threads racing the lazy initialisation (the loser spins in init_table until the winner has stored the table): liveness
ProgInit2 == (1 :> <<Ins(1, 11)>>) @@ (2 :> <<TIns(2, 21), Get(1)>>)
ProgInit == (1 :> <<Ins(1, 11)>>) @@ (2 :> <<TIns(1, 21), Get(1)>>) @@ (3 :> <<Inc(2, 31), Ins(2, 32)>>)
\* ---- one resize 2 -> 4 with two writers crossing the threshold and a reader
ProgRz1 == (1 :> <<Ins(2, 21)>>) @@ (2 :> <<Ins(3, 31)>>) @@ (3 :> <<Get(1), Get(3)>>)
\* ---- writers hitting forwarding markers (help_transfer) during a 4 -> 8 resize with stride 1
ProgRz2 == (1 :> <<Ins(3, 31)>>) @@ (2 :> <<Rem(1)>>) @@ (3 :> <<Inc(2, 51)>>)
\* ---- two generations 1 -> 2 -> 4: a helper delayed in help_transfer (finding F6 when STAMPCHECK = FALSE)
ProgF6 == (1 :> <<Ins(1, 11), Ins(2, 12)>>) @@ (2 :> <<Ins(3, 23)>>) @@ (3 :> <<Ins(4, 34)>>)
\* ---- iterators: across one resize; across two nested resizes; against removals / re-insertions
ProgIt1 == (1 :> <<Iter>>) @@ (2 :> <<Ins(2, 21)>>) @@ (3 :> <<Ins(3, 31)>>)
ProgIt2 == (1 :> <<Iter>>) @@ (2 :> <<Ins(2, 21), Ins(3, 22), Ins(4, 23)>>)
ProgIt3 == (1 :> <<Iter>>) @@ (2 :> <<Rem(1), Ins(1, 21)>>) @@ (3 :> <<Ins2(2, 31), Rem(3)>>)
\* ---- clear() racing a resize, an insert and an iterator
ProgClr1 == (1 :> <<Clear>>) @@ (2 :> <<Ins(2, 21)>>) @@ (3 :> <<Ins(1, 41)>>)
ProgClr2 == (1 :> <<Clear>>) @@ (2 :> <<Iter>>) @@ (3 :> <<Ins(3, 31)>>)
\* ---- reserve(): try_presize racing the lazy initialisation and an insert-driven resize
ProgRsv1 == (1 :> <<Reserve(2)>>) @@ (2 :> <<Ins(1, 11), Ins(2, 12)>>) @@ (3 :> <<Reserve(1), Get(1)>>)
ProgRsv2 == (1 :> <<Reserve(3)>>) @@ (2 :> <<Ins(2, 21)>>) @@ (3 :> <<Ins(3, 31), Get(1)>>)
\* ---- retain: the predicate rejects odd keys while their values are replaced / they are removed and re-inserted;
\*      and across a resize (the conditional removal meets forwarding markers)
ProgRt1 == (1 :> <<Retain("even")>>) @@ (2 :> <<Ins2(1, 21), Rem(3)>>) @@ (3 :> <<Ins(3, 31), Get(1)>>)
ProgRt2 == (1 :> <<Retain("none")>>) @@ (2 :> <<Ins(2, 21)>>) @@ (3 :> <<Ins2(1, 31)>>)
ProgRt3 == (1 :> <<RetainF("even")>>) @@ (2 :> <<Ins2(1, 21)>>) @@ (3 :> <<Rem(1), Ins(1, 31)>>)
\* ---- an overfull list bin in a short table: put calls try_presize(2n) (TT = 2): 2 -> 4 -> 8 bins
ProgOvf == (1 :> <<Ins(3, 31)>>) @@ (2 :> <<Ins2(2, 22)>>) @@ (3 :> <<Get(1), Get(3)>>)
\* ---- tree bins (TT = 2, MTC = 2, UT = 1): a list bin is treeified by the third colliding insert, removals turn it
\*      back into a list ("too small" is nondeterministic between SMIN and SMAX), a resize splits / reuses it
ProgTree1 == (1 :> <<Ins(3, 31), Rem(1)>>) @@ (2 :> <<Rem(2)>>) @@ (3 :> <<Get(3), Get(1)>>)
ProgTree2 == (1 :> <<Ins(3, 31)>>) @@ (2 :> <<Ins(4, 41), Rem(3)>>) @@ (3 :> <<Get(4)>>)
ProgTree3 == (1 :> <<Ins(4, 41)>>) @@ (2 :> <<Rem(1), Rem(2)>>) @@ (3 :> <<Get(3)>>)
HashPair == [k \in 1..9 |-> IF k % 2 = 0 THEN 2 ELSE 0]
\* ---- clear() empties a bin, the bin is re-populated with two keys whose split re-uses the tail node, the resize is
\*      in the middle of that bin when clear() meets a forwarding marker further up (finding F8 when CLRWAIT = FALSE)
ProgClr3 == (1 :> <<Clear>>) @@ (2 :> <<Ins(1, 21), Ins(5, 22)>>) @@ (3 :> <<Get(5)>>)
Init3 == <<E(1, 10), E(2, 20), E(3, 30)>>
Init1 == <<E(1, 10)>>
Init2 == <<E(1, 10), E(2, 20)>>
Init0 == <<>>

\* deliberately wrong variant of ClrWait for the liveness self-test (the seeded change C11-m5): clear() compares the
\* current table with the table it is about to continue in instead of the one it left, so once the resize has been
\* committed it spins for ever
ClrWaitWrong(t) ==
  /\ pc[t] = "ClrWait"
  /\ IF table # loc[t].tb THEN Goto(t, "ClrLoadBin") ELSE UNCHANGED pc
  /\ UNCHANGED loc /\ UnchHeap /\ UnchTab /\ UnchCtl /\ UnchHist
\* second liveness self-test: try_presize retries its initialisation CAS with the size_ctl value it read before the
\* failure (no re-read), so once another thread has initialised the table the reserve() call spins for ever
PsCasInitWrong(t) ==
  /\ pc[t] = "PsCasInit"
  /\ IF sizeCtl = loc[t].sc THEN sizeCtl' = -1 /\ Goto(t, "PsInitRecheck")
                           ELSE UNCHANGED sizeCtl /\ UNCHANGED pc
  /\ UNCHANGED <<transferIndex, count, loc>> /\ UnchHeap /\ UnchTab /\ UnchHist
=============================================================================
