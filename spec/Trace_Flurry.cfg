SPECIFICATION TSpec
CONSTANTS
  Threads <- TrThreads
  Prog <- TrProg
  HashOf <- TrHash
  InitKeys <- TrInit
  N0 <- TrN0
  DCAP = 16
  MaxNodes <- TrMaxNodes
  MaxTabs = 8
  STRIDE = 16
  MAXRES = 999
  STAMPCHECK = TRUE
  ACSTAMPCHECK = TRUE
  TRAVOFF = 0
  RETAINCHECK = TRUE
  TT = 8
  MTC = 64
  UT = 6
  SMIN = 3
  SMAX = 9
  XSKIP = FALSE
  CLRWAIT = TRUE
CONSTRAINT Report
INVARIANT TraceInv
CHECK_DEADLOCK FALSE
