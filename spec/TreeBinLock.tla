---------------------------- MODULE TreeBinLock ----------------------------
(***************************************************************************)
(* The parasitic read-write lock of a tree bin (src/node.rs):              *)
(*   lock_state word: WRITER = 1, WAITER = 2, READER = 4 per reader        *)
(*   waiter slot (thread handle of the waiting writer), park/unpark token  *)
(* Writer (holds the bin mutex, so there is one writer at a time):         *)
(*   lock_root:       CAS(0 -> WRITER) else contended_lock                 *)
(*   contended_lock:  loop { s = load;                                     *)
(*        if s & ~WAITER = 0: CAS(s -> WRITER) -> (if waiting: clear slot) *)
(*        elif s & WAITER = 0: CAS(s -> s|WAITER) -> waiting, publish slot *)
(*        elif waiting: park }                                             *)
(*   unlock_root:     store 0                                              *)
(* Reader (TreeBin::find), per element of the traversal list:              *)
(*   s = load; if s & (WAITER|WRITER): linear step (never waits)           *)
(*   elif CAS(s -> s+READER): tree search; fetch_add(-READER);             *)
(*        if old = READER|WAITER: load slot, unpark it                     *)
(* One action per shared access, as in the code; names are the hook        *)
(* labels.  UNPARK = FALSE models "last reader does not unpark" (mutant).  *)
(***************************************************************************)
EXTENDS Integers, FiniteSets, TLC
CONSTANTS Readers, Writer, NFinds, NLocks, UNPARK, SPURIOUS
VARIABLES state, waiter, token, pc, n, loc, waiting
vars == <<state, waiter, token, pc, n, loc, waiting>>

WRITER == 1
WAITER == 2
READER == 4
Threads == Readers \cup {Writer}
HasWW(s) == (s % 4) # 0                                       \* s & (WAITER|WRITER) # 0
HasWaiter(s) == (s \div 2) % 2 = 1
MaskWaiter(s) == IF HasWaiter(s) THEN s - WAITER ELSE s       \* s & ~WAITER

Init ==
  /\ state = 0 /\ waiter = 0 /\ token = [t \in Threads |-> FALSE]
  /\ pc = [t \in Threads |-> IF t = Writer THEN "LockRootCas" ELSE "FindLoadState"]
  /\ n = [t \in Threads |-> 0] /\ loc = [t \in Threads |-> 0] /\ waiting = FALSE

Goto(t, l) == pc' = [pc EXCEPT ![t] = l]

\* ------------------------------------------------------------------ writer
LockRootCas ==
  /\ pc[Writer] = "LockRootCas"
  /\ IF state = 0 THEN state' = WRITER /\ Goto(Writer, "Hold")
                  ELSE UNCHANGED state /\ Goto(Writer, "ContLoadState")
  /\ UNCHANGED <<waiter, token, n, loc, waiting>>

ContLoadState ==
  /\ pc[Writer] = "ContLoadState"
  /\ loc' = [loc EXCEPT ![Writer] = state]
  /\ Goto(Writer, IF MaskWaiter(state) = 0 THEN "ContCasWriter"
                  ELSE IF ~HasWaiter(state) THEN "ContCasWaiter"
                  ELSE IF waiting THEN "ContPark" ELSE "ContLoadState")
  /\ UNCHANGED <<state, waiter, token, n, waiting>>

ContCasWriter ==
  /\ pc[Writer] = "ContCasWriter"
  /\ IF state = loc[Writer]
     THEN state' = WRITER /\ Goto(Writer, IF waiting THEN "ContClearWaiter" ELSE "Hold")
     ELSE UNCHANGED state /\ Goto(Writer, "ContLoadState")
  /\ UNCHANGED <<waiter, token, n, loc, waiting>>

ContClearWaiter ==
  /\ pc[Writer] = "ContClearWaiter" /\ waiter' = 0 /\ Goto(Writer, "Hold")
  /\ UNCHANGED <<state, token, n, loc, waiting>>

ContCasWaiter ==
  /\ pc[Writer] = "ContCasWaiter"
  /\ IF state = loc[Writer]
     THEN state' = state + WAITER /\ waiting' = TRUE /\ Goto(Writer, "ContSwapWaiter")
     ELSE UNCHANGED <<state, waiting>> /\ Goto(Writer, "ContLoadState")
  /\ UNCHANGED <<waiter, token, n, loc>>

ContSwapWaiter ==
  /\ pc[Writer] = "ContSwapWaiter"
  /\ waiter' = Writer /\ Goto(Writer, "ContLoadState")
  /\ UNCHANGED <<state, token, n, loc, waiting>>

ContPark ==                                   \* park(): blocks until a token is available
  /\ pc[Writer] = "ContPark" /\ token[Writer]
  /\ token' = [token EXCEPT ![Writer] = FALSE] /\ Goto(Writer, "ContLoadState")
  /\ UNCHANGED <<state, waiter, n, loc, waiting>>

SpuriousWake ==                               \* environment: park() may return without a token
  /\ SPURIOUS /\ pc[Writer] = "ContPark" /\ ~token[Writer] /\ Goto(Writer, "ContLoadState")
  /\ UNCHANGED <<state, waiter, token, n, loc, waiting>>

Hold ==                                       \* restructure the tree, then unlock_root (store 0)
  /\ pc[Writer] = "Hold"
  /\ state' = 0 /\ waiting' = FALSE
  /\ n' = [n EXCEPT ![Writer] = @ + 1]
  /\ Goto(Writer, IF n[Writer] + 1 >= NLocks THEN "Done" ELSE "LockRootCas")
  /\ UNCHANGED <<waiter, token, loc>>

\* ------------------------------------------------------------------ reader
FindLoadState(t) ==
  /\ pc[t] = "FindLoadState"
  /\ loc' = [loc EXCEPT ![t] = state]
  /\ Goto(t, IF HasWW(state) THEN "FindLinear" ELSE "FindCasReader")
  /\ UNCHANGED <<state, waiter, token, n, waiting>>

FindLinear(t) ==                              \* follows next pointers; never waits
  /\ pc[t] = "FindLinear"
  /\ \/ Goto(t, "FindLoadState")              \* next element: the lock word is re-read
     \/ Goto(t, "FindEnd")                    \* found / end of list
  /\ UNCHANGED <<state, waiter, token, n, loc, waiting>>

FindCasReader(t) ==
  /\ pc[t] = "FindCasReader"
  /\ IF state = loc[t] THEN state' = state + READER /\ Goto(t, "FindTree")
                       ELSE UNCHANGED state /\ Goto(t, "FindLoadState")
  /\ UNCHANGED <<waiter, token, n, loc, waiting>>

FindTree(t) ==                                \* the tree descent (reads tree links)
  /\ pc[t] = "FindTree" /\ Goto(t, "FindRelease")
  /\ UNCHANGED <<state, waiter, token, n, loc, waiting>>

FindRelease(t) ==                             \* fetch_add(-READER)
  /\ pc[t] = "FindRelease"
  /\ state' = state - READER
  /\ Goto(t, IF state = READER + WAITER THEN "FindLoadWaiter" ELSE "FindEnd")
  /\ UNCHANGED <<waiter, token, n, loc, waiting>>

FindLoadWaiter(t) ==
  /\ pc[t] = "FindLoadWaiter"
  /\ loc' = [loc EXCEPT ![t] = waiter]
  /\ Goto(t, IF waiter # 0 /\ UNPARK THEN "FindUnpark" ELSE "FindEnd")
  /\ UNCHANGED <<state, waiter, token, n, waiting>>

FindUnpark(t) ==
  /\ pc[t] = "FindUnpark"
  /\ token' = [token EXCEPT ![loc[t]] = TRUE] /\ Goto(t, "FindEnd")
  /\ UNCHANGED <<state, waiter, n, loc, waiting>>

FindEnd(t) ==
  /\ pc[t] = "FindEnd"
  /\ n' = [n EXCEPT ![t] = @ + 1]
  /\ Goto(t, IF n[t] + 1 >= NFinds THEN "Done" ELSE "FindLoadState")
  /\ UNCHANGED <<state, waiter, token, loc, waiting>>

WStep == LockRootCas \/ ContLoadState \/ ContCasWriter \/ ContClearWaiter \/ ContCasWaiter
         \/ ContSwapWaiter \/ ContPark \/ Hold
RStep(t) == FindLoadState(t) \/ FindLinear(t) \/ FindCasReader(t) \/ FindTree(t) \/ FindRelease(t)
            \/ FindLoadWaiter(t) \/ FindUnpark(t) \/ FindEnd(t)
Next == WStep \/ SpuriousWake \/ \E t \in Readers : RStep(t)
Spec == Init /\ [][Next]_vars
LiveSpec == Spec /\ WF_vars(WStep) /\ \A t \in Readers : WF_vars(RStep(t))

AllDone == \A t \in Threads : pc[t] = "Done"
\* writer and tree-mode readers exclude each other (C01/C06: readers never see a half-rotated tree)
Mutex == pc[Writer] = "Hold" => \A t \in Readers : pc[t] \notin {"FindTree", "FindRelease"}
\* C11: no deadlock, no lost wake-up
NoDeadlock == ~AllDone => (ENABLED WStep \/ \E t \in Readers : ENABLED RStep(t))
Clean == AllDone => state = 0 /\ waiter = 0
Termination == <>AllDone
\* C12: a reader is never disabled, whatever the writer does
ReadersNeverBlock == \A t \in Readers : pc[t] # "Done" => ENABLED RStep(t)
TypeOK == state >= 0 /\ state % 4 # 3
=============================================================================
