SPECIFICATION Spec
CONSTANTS
  Readers = {r1, r2}
  Writer = w
  NFinds = 2
  NLocks = 2
  UNPARK = FALSE
  SPURIOUS = FALSE
INVARIANTS Mutex NoDeadlock Clean ReadersNeverBlock
CHECK_DEADLOCK FALSE
