--------------------------- MODULE MC_TreeBinRB ---------------------------
EXTENDS TreeBinRB
CONSTANT NK
MCKeys == 1..NK
\* three hash regimes in one model: colliding pairs, order opposite to key order
MCHash == [k \in 1..NK |-> (NK + 1 - k) \div 2]
Asc(n) == [i \in 1..n |-> i]
Desc(n) == [i \in 1..n |-> n + 1 - i]
Zig(n) == [i \in 1..n |-> IF i % 2 = 1 THEN (i + 1) \div 2 ELSE n + 1 - (i \div 2)]
MCInit == UNION {{Asc(n), Desc(n), Zig(n)} : n \in 7..NK}
\* tree part only (the traversal list does not influence the tree algorithms and vice versa)
TreeView == <<[x \in Keys |-> <<T[x].parent, T[x].left, T[x].right, T[x].red>>], root, present, dead>>
=============================================================================
