SPECIFICATION LiveSpec
CONSTANTS
  Readers = {r1, r2}
  Writer = w
  NFinds = 2
  NLocks = 2
  UNPARK = TRUE
  SPURIOUS = TRUE
PROPERTY Termination
CHECK_DEADLOCK FALSE
