----------------------------- MODULE Trace_RB -----------------------------
(***************************************************************************)
(* C06: crowded bins are balanced search trees with consistent links.      *)
(* Input (env TRACES): per recorded run a sequence of                      *)
(*  {e:"tree", root, first, inorder, nodes: [ {n,k,h0,h1,h2,next,prev,     *)
(*        parent,left,right,red} ]}  - the inspector's dump of one tree    *)
(*        bin at a quiescent point (nodes in traversal-list order,         *)
(*        inorder = ids reachable from the root in symmetric order), and   *)
(*  {e:"cmp", n, cnt, tlen} - a lookup in a bin of n entries of a table of *)
(*        tlen bins made cnt key comparisons (Eq + Ord calls).             *)
(* RBInvariants are the invariants TLC checks exhaustively on              *)
(* TreeBinRB.tla (the transcribed algorithms).                             *)
(***************************************************************************)
EXTENDS Naturals, Sequences, FiniteSets, TLC, Json, IOUtils

Traces == ndJsonDeserialize(IOEnv.TRACES)
Diag == "DIAG" \in DOMAIN IOEnv /\ IOEnv.DIAG = "1"
VARIABLES tr, l
vars == <<tr, l>>
Ev == Traces[tr].ev
SeqToSet(s) == {s[i] : i \in 1..Len(s)}

\* (hash, key) order; the 64-bit hash comes in three pieces
Less(a, b) ==
  \/ a.h2 < b.h2
  \/ a.h2 = b.h2 /\ a.h1 < b.h1
  \/ a.h2 = b.h2 /\ a.h1 = b.h1 /\ a.h0 < b.h0
  \/ a.h2 = b.h2 /\ a.h1 = b.h1 /\ a.h0 = b.h0 /\ a.k < b.k

RECURSIVE BlackHeight(_, _)
\* 0 = the subtree violates the equal-black-height rule
BlackHeight(nd, x) ==
  IF x = 0 THEN 1
  ELSE LET hl == BlackHeight(nd, nd[x].left)
           hr == BlackHeight(nd, nd[x].right)
       IN IF hl = 0 \/ hr = 0 \/ hl # hr THEN 0 ELSE hl + (IF nd[x].red = 1 THEN 0 ELSE 1)

CeilLog2(n) == CHOOSE i \in 0..40 : 2^i >= n /\ (i = 0 \/ 2^(i - 1) < n)
CmpBound(n) == 4 * CeilLog2(n + 1) + 2

RBInvariants(t) ==
  LET ns == t.nodes
      N == {ns[i].n : i \in 1..Len(ns)}
      nd == [x \in N |-> ns[CHOOSE i \in 1..Len(ns) : ns[i].n = x]]
      io == t.inorder
  IN
  /\ Len(ns) > 0 /\ Cardinality(N) = Len(ns)
  \* traversal list: first / next / prev are mutually consistent
  /\ t.first = ns[1].n /\ ns[1].prev = 0 /\ ns[Len(ns)].next = 0
  /\ \A i \in 1..(Len(ns) - 1) : ns[i].next = ns[i + 1].n /\ ns[i + 1].prev = ns[i].n
  \* the tree and the list hold exactly the same entries
  /\ Len(io) = Len(ns) /\ SeqToSet(io) = N
  \* parent / child links are mutually consistent
  /\ t.root \in N /\ nd[t.root].parent = 0
  /\ \A x \in N :
       /\ nd[x].left # 0 => (nd[x].left \in N /\ nd[nd[x].left].parent = x)
       /\ nd[x].right # 0 => (nd[x].right \in N /\ nd[nd[x].right].parent = x)
       /\ x # t.root => (nd[x].parent \in N /\ (nd[nd[x].parent].left = x \/ nd[nd[x].parent].right = x))
  \* ordered by (hash, key)
  /\ \A i \in 1..(Len(io) - 1) : Less(nd[io[i]], nd[io[i + 1]])
  \* red-black colouring: black root, no red node with a red child, equal black height
  /\ nd[t.root].red = 0
  /\ \A x \in N : nd[x].red = 1 =>
       /\ (nd[x].left # 0 => nd[nd[x].left].red = 0)
       /\ (nd[x].right # 0 => nd[nd[x].right].red = 0)
  /\ BlackHeight(nd, t.root) # 0

CmpOk(e) == (e.tlen >= 64 /\ e.n >= 8) => e.cnt <= CmpBound(e.n)

Init == tr \in 1..Len(Traces) /\ l = 1
Next ==
  /\ l <= Len(Ev)
  /\ l' = l + 1 /\ UNCHANGED tr
  /\ IF Ev[l].e = "tree" THEN RBInvariants(Ev[l]) ELSE CmpOk(Ev[l])
Spec == Init /\ [][Next]_vars
Done == l > Len(Ev)
Report ==
  /\ Done => PrintT(<<"ACCEPT", Traces[tr].id>>)
  /\ Diag => PrintT(<<"AT", Traces[tr].id, l>>)
=============================================================================
