SPECIFICATION LiveSpec
CONSTANTS
  Threads = {1, 2, 3}
  Prog <- ProgOvf
  HashOf <- HashSame
  InitKeys <- Init2
  N0 = 2
  DCAP = 2
  MaxNodes = 10
  MaxTabs = 3
  STRIDE = 4
  MAXRES = 100
  STAMPCHECK = TRUE
  ACSTAMPCHECK = TRUE
  TRAVOFF = 0
  RETAINCHECK = TRUE
  TT = 2
  MTC = 100
  UT = 6
  SMIN = 3
  SMAX = 9
  XSKIP = FALSE
  CLRWAIT = TRUE
INVARIANTS NoDeadlock
PROPERTY Termination
CHECK_DEADLOCK FALSE
