SPECIFICATION Spec
CONSTANTS
  Readers = {r1, r2}
  Writer = w
  NFinds = 2
  NLocks = 2
  UNPARK = TRUE
  SPURIOUS = TRUE
INVARIANTS Mutex NoDeadlock Clean ReadersNeverBlock TypeOK
CHECK_DEADLOCK FALSE
