---------------------------- MODULE MC_MemModel ----------------------------
(***************************************************************************)
(* The publication idioms of flurry, checked exhaustively over all         *)
(* interleavings with the vector-clock semantics of MemModel, parameterised*)
(* by the memory orderings the code passes at the publishing / observing   *)
(* sites (extracted from /repo/src by tools/c15.py at check time):         *)
(*   CAS_REL      cas_bin success ordering has release                     *)
(*   STOREBIN_REL store_bin is a release store                             *)
(*   BIN_ACQ      Table::bin load is acquire (guarded loads: always)       *)
(*   APPEND_REL   put's n.next.store (list append) is a release store      *)
(* Threads: w inserts (allocates node n1 and value v1, publishes by CAS    *)
(* into an empty bin, later appends n2 behind n1); x copies the bin into a *)
(* new table under the bin lock (allocates n3 sharing v1, publishes with   *)
(* store_bin); r looks up through the old bin, the list link and the new   *)
(* bin and dereferences what it finds.  Invariant: every dereference       *)
(* happens-after the object's initialisation.                              *)
(***************************************************************************)
EXTENDS MemModel, Sequences
CONSTANTS CAS_REL, STOREBIN_REL, BIN_ACQ, APPEND_REL
VARIABLES S, pcw, pcx, pcr, bin, nxt, nbin, ok, seen   \* seen: what the reader's last load returned
vars == <<S, pcw, pcx, pcr, bin, nxt, nbin, ok, seen>>
W == "w"  X == "x"  R == "r"
\* locations / objects
LBIN == 1  LNEXT == 2  LNBIN == 3  MTX == 4
N1 == 1  V1 == 2  N2 == 3  V2 == 4  N3 == 5

Init == /\ S = InitState({W, X, R}) /\ pcw = 1 /\ pcx = 1 /\ pcr = 1
        /\ bin = 0 /\ nxt = 0 /\ nbin = 0 /\ ok = TRUE /\ seen = 0

\* writer: alloc v1, n1; CAS bin; lock; alloc v2, n2; append; unlock
WStep ==
  \/ /\ pcw = 1 /\ S' = Alloc(Alloc(S, W, V1), W, N1) /\ pcw' = 2 /\ UNCHANGED <<pcx, pcr, bin, nxt, nbin, ok, seen>>
  \/ /\ pcw = 2 /\ S' = Rmw(S, W, LBIN, TRUE, CAS_REL) /\ bin' = N1 /\ pcw' = 3 /\ UNCHANGED <<pcx, pcr, nxt, nbin, ok, seen>>
  \/ /\ pcw = 3 /\ pcx \notin {2, 3, 4, 5} /\ S' = Lock(S, W, MTX) /\ pcw' = 4 /\ UNCHANGED <<pcx, pcr, bin, nxt, nbin, ok, seen>>
  \/ /\ pcw = 4 /\ S' = Alloc(Alloc(S, W, V2), W, N2) /\ pcw' = 5 /\ UNCHANGED <<pcx, pcr, bin, nxt, nbin, ok, seen>>
  \/ /\ pcw = 5 /\ S' = Store(S, W, LNEXT, APPEND_REL) /\ nxt' = N2 /\ pcw' = 6 /\ UNCHANGED <<pcx, pcr, bin, nbin, ok, seen>>
  \/ /\ pcw = 6 /\ S' = Unlock(S, W, MTX) /\ pcw' = 7 /\ UNCHANGED <<pcx, pcr, bin, nxt, nbin, ok, seen>>
\* copier (transfer / treeify): load bin; lock; clone node (relaxed reads under the lock); store_bin; unlock
XStep ==
  \/ /\ pcx = 1 /\ bin # 0 /\ S' = Load(S, X, LBIN, BIN_ACQ) /\ pcx' = 2 /\ UNCHANGED <<pcw, pcr, bin, nxt, nbin, ok, seen>>
  \/ /\ pcx = 2 /\ pcw \notin {4, 5, 6} /\ S' = Lock(S, X, MTX) /\ pcx' = 3 /\ UNCHANGED <<pcw, pcr, bin, nxt, nbin, ok, seen>>
  \/ /\ pcx = 3 /\ ok' = (ok /\ DerefOk(S, X, N1)) /\ S' = Alloc(S, X, N3) /\ pcx' = 4 /\ UNCHANGED <<pcw, pcr, bin, nxt, nbin, seen>>
  \/ /\ pcx = 4 /\ S' = Store(S, X, LNBIN, STOREBIN_REL) /\ nbin' = N3 /\ pcx' = 5 /\ UNCHANGED <<pcw, pcr, bin, nxt, ok, seen>>
  \/ /\ pcx = 5 /\ S' = Unlock(S, X, MTX) /\ pcx' = 6 /\ UNCHANGED <<pcw, pcr, bin, nxt, nbin, ok, seen>>
\* reader: bin -> n1 (+ its value), n1.next -> n2 (+ value), new bin -> n3 (+ the shared value v1)
RStep ==
  \/ /\ pcr = 1 /\ S' = Load(S, R, LBIN, BIN_ACQ) /\ pcr' = 2 /\ seen' = bin
     /\ ok' = (ok /\ ReadOk(S, R, LBIN)) /\ UNCHANGED <<pcw, pcx, bin, nxt, nbin>>
  \/ /\ pcr = 2 /\ ok' = (ok /\ (seen # 0 => (DerefOk(S, R, N1) /\ DerefOk(S, R, V1)))) /\ pcr' = IF seen # 0 THEN 3 ELSE 5
     /\ UNCHANGED <<S, pcw, pcx, bin, nxt, nbin, seen>>
  \/ /\ pcr = 3 /\ S' = Load(S, R, LNEXT, TRUE) /\ pcr' = 4 /\ seen' = nxt      \* guarded load: SeqCst
     /\ ok' = (ok /\ ReadOk(S, R, LNEXT)) /\ UNCHANGED <<pcw, pcx, bin, nxt, nbin>>
  \/ /\ pcr = 4 /\ ok' = (ok /\ (seen # 0 => (DerefOk(S, R, N2) /\ DerefOk(S, R, V2)))) /\ pcr' = 5
     /\ UNCHANGED <<S, pcw, pcx, bin, nxt, nbin, seen>>
  \/ /\ pcr = 5 /\ S' = Load(S, R, LNBIN, BIN_ACQ) /\ pcr' = 6 /\ seen' = nbin
     /\ ok' = (ok /\ ReadOk(S, R, LNBIN)) /\ UNCHANGED <<pcw, pcx, bin, nxt, nbin>>
  \/ /\ pcr = 6 /\ ok' = (ok /\ (seen # 0 => (DerefOk(S, R, N3) /\ DerefOk(S, R, V1)))) /\ pcr' = 7
     /\ UNCHANGED <<S, pcw, pcx, bin, nxt, nbin, seen>>
Next == WStep \/ XStep \/ RStep
Spec == Init /\ [][Next]_vars
\* which reads observe what is decided by the interleaving (the latest store in the order of the
\* behaviour); `ok` collects the happens-before obligations of all observed objects
PublicationSafe == ok
=============================================================================
