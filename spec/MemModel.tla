----------------------------- MODULE MemModel -----------------------------
(***************************************************************************)
(* Happens-before from the orderings the code passes (C15): a vector-clock *)
(* semantics of C11/Rust atomics sufficient for publication-safety:        *)
(*   C[t]    clock of thread t                                             *)
(*   L[a]    release clock of location a's current release sequence        *)
(*           (release store sets it, relaxed store clears it, RMWs extend) *)
(*   W[a]    <<t, epoch>> of the last store to a if it was Relaxed         *)
(*   M[m]    clock released by the last unlock of mutex m                  *)
(*   U[t]    clock handed to t by unpark                                   *)
(*   A[o]    <<t, epoch>> of the allocation / initialisation of object o   *)
(* Pure operators; used by Trace_HB (recorded streams of atomic            *)
(* operations) and MC_MemModel (publication idioms, exhaustive).           *)
(***************************************************************************)
EXTENDS Naturals, TLC

Max(a, b) == IF a >= b THEN a ELSE b
Join(c, d) == [t \in DOMAIN c |-> Max(c[t], IF t \in DOMAIN d THEN d[t] ELSE 0)]
Get(f, x, dflt) == IF x \in DOMAIN f THEN f[x] ELSE dflt
Put(f, x, v) == (x :> v) @@ f
Tick(C, t) == [C EXCEPT ![t] = [@ EXCEPT ![t] = @ + 1]]

\* e.t loads location e.a; acq says whether the load is (at least) Acquire
Load(S, t, a, acq) ==
  IF acq /\ a \in DOMAIN S.L /\ S.L[a] # <<>>
  THEN [S EXCEPT !.C = [@ EXCEPT ![t] = Join(@, S.L[a])]]
  ELSE S

\* A read of a location whose last store was Relaxed and made by another thread is only
\* guaranteed to see that store if the store happens-before the read.
ReadOk(S, t, a) ==
  (a \in DOMAIN S.W /\ S.W[a] # <<>> /\ S.W[a][1] # t) => S.C[t][S.W[a][1]] >= S.W[a][2]

Store(S, t, a, rel) ==
  LET C2 == Tick(S.C, t) IN
  [S EXCEPT !.C = C2,
            !.L = Put(@, a, IF rel THEN C2[t] ELSE <<>>),
            !.W = Put(@, a, IF rel THEN <<>> ELSE <<t, C2[t][t]>>)]

\* read-modify-write: acquires the release sequence it reads from (if acq) and extends it (a
\* releasing RMW adds its own clock; a relaxed RMW leaves the sequence intact)
Rmw(S, t, a, acq, rel) ==
  LET S1 == Load(S, t, a, acq)
      C2 == Tick(S1.C, t)
      old == Get(S1.L, a, <<>>)
  IN [S1 EXCEPT !.C = C2,
                !.L = Put(@, a, IF rel THEN (IF old = <<>> THEN C2[t] ELSE Join(C2[t], old)) ELSE old),
                !.W = Put(@, a, <<>>)]

Lock(S, t, m) == [S EXCEPT !.C = [@ EXCEPT ![t] = Join(@, Get(S.M, m, @))]]
Unlock(S, t, m) == LET C2 == Tick(S.C, t) IN [S EXCEPT !.C = C2, !.M = Put(@, m, C2[t])]
Unpark(S, t, u) == LET C2 == Tick(S.C, t) IN
                   [S EXCEPT !.C = C2, !.U = Put(@, u, Join(C2[t], Get(S.U, u, C2[t])))]
Park(S, t) == [S EXCEPT !.C = [@ EXCEPT ![t] = Join(@, Get(S.U, t, @))]]

Alloc(S, t, o) == LET C2 == Tick(S.C, t) IN [S EXCEPT !.C = C2, !.A = Put(@, o, <<t, C2[t][t]>>)]
\* the initialisation of o happens-before this access
DerefOk(S, t, o) == (o \in DOMAIN S.A) => S.C[t][S.A[o][1]] >= S.A[o][2]

\* all threads start with the clock of `main` (spawn); main joins all clocks (join)
Fork(S, main) == [S EXCEPT !.C = [t \in DOMAIN S.C |-> Join(S.C[t], S.C[main])]]
RECURSIVE JoinSet(_, _, _)
JoinSet(c, Cs, ts) ==
  IF ts = {} THEN c ELSE LET x == CHOOSE x \in ts : TRUE IN JoinSet(Join(c, Cs[x]), Cs, ts \ {x})
JoinAll(S, main) == [S EXCEPT !.C = [@ EXCEPT ![main] = JoinSet(@, S.C, DOMAIN S.C)]]

InitState(threads) ==
  [C |-> [t \in threads |-> [u \in threads |-> 0]], L |-> <<>>, W |-> <<>>, M |-> <<>>, U |-> <<>>, A |-> <<>>]
=============================================================================
