----------------------------- MODULE SeqOps -----------------------------
(***************************************************************************)
(* Sequential meaning of the whole public API of HashMap / HashSet on the  *)
(* abstract map of AbsOps: per-key operations, whole-map operations,       *)
(* guard kinds (own / foreign collector), fault points (panic at the i-th  *)
(* callback invocation).  SeqStep(m, o, isSet) gives the expected outcome  *)
(* of operation o in state m as a record                                   *)
(*    [m |-> next state, r |-> expected result, panic |-> 0/1,             *)
(*     chk |-> names of the result fields that are meaningful]             *)
(* Operations whose outcome depends on the (unspecified) iteration order   *)
(* - retain with a fault point - take the logged predicate calls as input. *)
(***************************************************************************)
EXTENDS AbsOps, FiniteSets, TLC

SeqToSet(s) == {s[i] : i \in 1..Len(s)}
PresentKeys(m) == {k \in DOMAIN m : Present(m, k)}
Items(m) == {<<k, m[k].tag, m[k].v>> : k \in PresentKeys(m)}
KeyItems(m) == {<<k, m[k].tag, 0>> : k \in PresentKeys(m)}
ValItems(m) == {<<0, 0, m[k].v>> : k \in PresentKeys(m)}

RECURSIVE ExtendFrom(_, _, _, _)
ExtendFrom(m, o, i, isSet) ==
  IF i > Len(o.keys) THEN m
  ELSE ExtendFrom(ApplyState(m, [op |-> "insert", k |-> o.keys[i], tag |-> o.tag,
                                 v |-> IF isSet THEN 1 ELSE o.n + i - 1, pl |-> o.pl, f |-> "-"]),
                  o, i + 1, isSet)

Verdict(o, k, pl) ==
  CASE o.f = "all" -> TRUE
    [] o.f = "none" -> FALSE
    [] o.f = "even" -> k % 2 = 0
    [] o.f = "odd" -> k % 2 = 1
    [] o.f = "keep" -> k \in SeqToSet(o.keys)
    [] o.f = "drop" -> k \notin SeqToSet(o.keys)
    [] o.f = "plt" -> pl < o.n
    [] OTHER -> TRUE

RemoveKeys(m, ks) == [k \in DOMAIN m |-> IF k \in ks THEN Absent ELSE m[k]]
Rejected(m, o) == {k \in PresentKeys(m) : ~Verdict(o, k, m[k].pl)}

DbgMap(m, k) == "K" \o ToString(k) \o "." \o ToString(m[k].tag) \o ": V" \o ToString(m[k].pl)
DbgSet(m, k) == "K" \o ToString(k) \o "." \o ToString(m[k].tag)

GuardTaking == {"get", "get_key_value", "contains_key", "contains", "insert", "try_insert", "remove",
                "remove_entry", "take", "compute", "clear", "reserve", "iter", "keys", "values",
                "retain", "retain_force", "is_disjoint", "is_subset", "is_superset"}

\* methods reachable through a `with_guard` reference wrapper additionally use the guard in
\* Index and Debug
RefGuardTaking == GuardTaking \cup {"index", "debug"}

\* Does the call hand a guard of a foreign collector to code that would read the map with it?
\* (is_superset(other) iterates `other` with other's guard and only touches this set - with the
\* foreign guard - if `other` has an element.)
ForeignUse(o) ==
  /\ o.g \in {"foreign", "foreign_ref"}
  /\ IF o.op = "is_superset" THEN o.keys # <<>>
     ELSE IF o.g = "foreign" THEN o.op \in GuardTaking ELSE o.op \in RefGuardTaking

Out(m, r, panic) == [m |-> m, r |-> r, panic |-> panic]

(* preds: the logged predicate invocations <<k, v, keep>> of this call, in order *)
SeqStep(m, o, preds, isSet) ==
  LET n == Cardinality(PresentKeys(m)) IN
  IF ForeignUse(o) THEN Out(m, NoRes, 1)
  ELSE IF o.op \in PerKeyOps THEN
         IF o.op = "compute" /\ o.pa = 1 /\ Present(m, o.k)
         THEN Out(m, NoRes, 1)
         ELSE Out(ApplyState(m, o), ApplyResult(m, o), 0)
  ELSE CASE o.op \in {"len", "reserve", "debug", "clone_eq", "eq_other", "yield",
                      "is_disjoint", "is_subset", "is_superset"} -> Out(m, NoRes, 0)
         [] o.op = "clear" -> Out([k \in DOMAIN m |-> Absent], NoRes, 0)
         [] o.op \in {"iter", "keys", "values"} -> Out(m, NoRes, B(o.pa # 0 /\ n >= o.pa))
         [] o.op = "extend" -> Out(ExtendFrom(m, o, 1, isSet), NoRes, 0)
         [] o.op = "index" -> Out(m, ApplyResult(m, [o EXCEPT !.op = "get"]), B(~Present(m, o.k)))
         [] o.op \in {"retain", "retain_force"} ->
              IF o.pa # 0 /\ n >= o.pa
              THEN Out(RemoveKeys(m, {preds[i][1] : i \in {j \in 1..(o.pa - 1) : preds[j][3] = 0}}), NoRes, 1)
              ELSE Out(RemoveKeys(m, Rejected(m, o)), NoRes, 0)
         [] OTHER -> Out(m, NoRes, 0)

(* Conditions on the logged result / callbacks of a whole-map operation (m is the state before the call). *)
WholeOk(m, o, r, preds, isSet) ==
  LET n == Cardinality(PresentKeys(m))
      others == SeqToSet(o.keys)
      items == SeqToSet(r.items)
  IN
  CASE o.op = "len" -> r.n = n /\ r.empty = B(n = 0)
    [] o.op = "iter" /\ r.panic = 0 -> Len(r.items) = n /\ items = Items(m)
    [] o.op = "keys" /\ r.panic = 0 -> Len(r.items) = n /\ items = KeyItems(m)
    [] o.op = "values" /\ r.panic = 0 -> Len(r.items) = n /\ items = ValItems(m)
    [] o.op = "clone_eq" -> r.ok = 1 /\ r.n = n /\ Len(r.items) = n /\ items = Items(m)
    [] o.op = "eq_other" ->
         r.ok = B(PresentKeys(m) = others /\ (isSet \/ \A k \in PresentKeys(m) : m[k].pl = o.pl))
    [] o.op = "debug" ->
         /\ Len(r.dbg) = n
         /\ SeqToSet(r.dbg) = {IF isSet THEN DbgSet(m, k) ELSE DbgMap(m, k) : k \in PresentKeys(m)}
    [] o.op = "is_disjoint" -> r.ok = B(PresentKeys(m) \cap others = {})
    [] o.op = "is_subset" -> r.ok = B(PresentKeys(m) \subseteq others)
    [] o.op = "is_superset" -> r.ok = B(others \subseteq PresentKeys(m))
    [] o.op \in {"retain", "retain_force"} ->
         \* every logged predicate call is for a present entry with its current value and gets
         \* the verdict the predicate computes; without a fault every present entry is inspected
         \* exactly once
         /\ \A i \in 1..Len(preds) :
              /\ Present(m, preds[i][1])
              /\ (isSet \/ preds[i][2] = m[preds[i][1]].v)
              /\ preds[i][3] = B(Verdict(o, preds[i][1], m[preds[i][1]].pl))
         /\ \A i, j \in 1..Len(preds) : i # j => preds[i][1] # preds[j][1]
         /\ IF o.pa # 0 /\ n >= o.pa THEN Len(preds) = o.pa
            ELSE {preds[i][1] : i \in 1..Len(preds)} = PresentKeys(m)
    [] OTHER -> TRUE
=============================================================================
