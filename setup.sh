#!/bin/sh
# Build the framework from files on disk only (offline): harness against /repo, SANY over all specs.
set -e
cd "$(dirname "$0")"
mkdir -p work evidence replays
[ -f harness/Cargo.lock ] || cp /repo/Cargo.lock harness/Cargo.lock
(cd harness && cargo build --release --offline)
for f in spec/*.tla; do
  (cd spec && java -cp /opt/veriftools/tla/tla2tools.jar:/opt/veriftools/tla/CommunityModules-deps.jar tla2sany.SANY "$(basename "$f")" >/dev/null) || { echo "SANY failed on $f"; exit 1; }
done
echo setup ok
