#!/bin/sh
# usage: seedtest.sh <patch.diff> <check args...>   e.g. seedtest.sh /tmp/mut/C05.out/m1/patch.diff C05 --n 600
# applies the patch to /repo, runs ./check, reverts. Prints exit code.
P="$1"; shift
cd /repo || exit 2
git diff --quiet || { echo "repo dirty"; exit 2; }
git apply "$P" 2>/dev/null || patch -p1 --fuzz=3 -s < "$P" || { echo "patch does not apply"; git checkout -- .; exit 2; }
find . -name "*.orig" -newer "$P" -delete 2>/dev/null; git status --short | grep -v "^ M" | head -3
cd /verif
./check "$@" > /verif/work/seedtest.out 2> /verif/work/seedtest.err
rc=$?
git -C /repo checkout -- .
echo "rc=$rc"; grep -c VIOLATION /verif/work/seedtest.out; head -3 /verif/work/seedtest.out; grep -v "^harness built" /verif/work/seedtest.err | head -4 | cut -c1-300
