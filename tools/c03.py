"""C03 (references never dangle; freed memory never touched) and C04 (every key and value destroyed
exactly once). Programs run on the real crate under the scheduler with collector batch sizes 1, 2, 8
and the default, with the quarantine allocator (freed blocks are kept, so an announced access inside
one is a genuine use-after-free and a checksum detects writes), the instance ledger of the
instrumented key/value types, reference canaries re-read at guard release, and an inspector snapshot
at every retire (reachability). Bulk constructors (collect / extend with exact, zero and lying size
hints, colliding hashers) run through the same allocator. TLC validates the recorded life-cycle
events against Trace_Reclaim."""
import json
import random
import time

import c10
import c11
import c19
import gen
import lib
import project


def make_jobs(rng, n, pid):
    jobs = []
    names = list(gen.configs())
    for i in range(n):
        m = i % 5
        if m == 0:
            j = c11.tree_contention_job(rng, "%s-%05d" % (pid, i))
        elif m == 1:
            j = c10.multigen_job(rng, "%s-%05d" % (pid, i))
        elif m == 3 and i % 10 == 3:
            # a resize that meets a tree bin (split into two halves, or re-used for the half that gets everything)
            j = c10.tree_resize_job(rng, "%s-%05d" % (pid, i))
        elif m == 2:
            # retain / iteration racing with replacing writers (conditional removals on list and tree bins)
            import c07
            j = c07.iter_job(rng, "%s-%05d" % (pid, i), kind_of=rng.choice(["retain", "retain", "iter"]), tree_only=(i % 2 == 0))
        else:
            j = gen.conc_job(rng, "%s-%05d" % (pid, i), cfgname=names[i % len(names)], whole=0.3, maxops=4)
            if j["sched"].get("kind") == "os":
                j["sched"] = gen.schedule(rng, len(j["threads"]))
        j["rec"] = ["mem"]
        j["batch"] = rng.choice([1, 1, 2, 8, 0])
        if rng.random() < 0.6:
            j["scope"] = "thread"      # readers hold their references across the writers' retirements
        jobs.append(j)
    return jobs


def bulk_jobs(rng, tier):
    jobs = []
    n = 0
    hs = [gen.table_hasher({k: 5 for k in range(400)}), gen.table_hasher({}), {"kind": "default"},
          gen.table_hasher({k: 3 + 64 * (k % 5) for k in range(400)})]
    sizes = [0, 1, 2, 3, 9, 12, 13, 25, 50, 100, 200] if tier == "quick" else list(range(0, 40)) + [50, 64, 100, 128, 200, 300]
    for sz in sizes:
        for hint in ("exact", "lower", "zero", "half", "exact_half", "exact_zero"):
            for how in ("collect_map", "collect_set", "extend_map"):
                for h in hs:
                    es = [[k, 1, 1000 + k, k % 3] for k in range(1, sz + 1)]
                    if sz > 3 and n % 3 == 0:
                        es = es + [[es[0][0], 2, 5000, 1]]     # a repeated key
                    jobs.append(c19.bulk_job("cb-%05d" % n, how, es, h, hint=hint))
                    n += 1
    return jobs


def run(pid, tier, seed, njobs=None):
    t0 = time.time()
    verdict = lib.Verdict(pid)
    rng = random.Random(seed)
    n = njobs or (800 if tier == "quick" else 10000)
    jobs = lib.scenario_jobs(pid, rec=["mem"]) + make_jobs(rng, n, pid.lower())
    bjobs = bulk_jobs(rng, tier)
    res = lib.run_jobs(jobs + bjobs, pid.lower(), procs=8, timeout=1800)
    projected, byid, outcomes = [], {}, {}
    nret = nfree = 0
    for job, trace, crash in res:
        bulk = job.get("kind") == "bulk"
        if crash is not None:
            sig = "crash:%s:%s" % (("bulk:" + job["bulk"]["how"] + ":" + job["bulk"]["hint"]) if bulk else job.get("cfg"), crash.get("signal") or crash["rc"])
            verdict.violation(sig, job["id"], {"job": job, "crash": crash}, "the crate crashed/hung while running job %s (%s)" % (job["id"], str(crash)[:300]))
            continue
        if bulk:
            en = trace.get("end", {})
            p = {"id": trace["id"], "proto": 0, "ev": [{"e": x["e"], "how": x.get("how", "?")} for x in trace.get("ev", []) if x.get("e") in ("uaf",)] +
                 [{"e": "bad", "how": x["e"]} for x in trace.get("ev", []) if x.get("e") in ("use_after_drop", "double_drop")] +
                 ([{"e": "bad", "how": "panic"}] if trace.get("outcome") == "panic" else []) +
                 [{"e": "end", "uaf": trace.get("uaf", 0), "corrupted": en.get("corrupted", 0), "dfree": en.get("double_free", 0),
                   "lviol": en.get("ledger_violations", 0), "alive": en.get("alive", 0), "live": en.get("live_blocks", 0), "dropok": 1}]}
        else:
            outcomes[trace["outcome"]] = outcomes.get(trace["outcome"], 0) + 1
            if trace["outcome"] != "Done":
                continue
            p = project.reclaim_projection(trace, job)
            nret += sum(1 for e in p["ev"] if e["e"] == "retire")
            nfree += sum(1 for e in p["ev"] if e["e"] == "free")
        byid[p["id"]] = (job, trace, p)
        projected.append(p)
    v = lib.validate_traces("Trace_Reclaim", projected, pid.lower(), workers=6, timeout=1800)
    for rid in v["rejected"]:
        job, trace, p = byid[rid]
        d = lib.diagnose_trace("Trace_Reclaim", p, pid.lower())
        fu = d["first_unmatched"] or {}
        bulk = job.get("kind") == "bulk"
        job2 = dict(job)
        if not bulk:
            job2["sched"] = {"kind": "list", "steps": trace["schedule"]}
            job2.pop("script", None)
        # C03 owns memory-safety events, C04 the exactly-once accounting
        c04_kind = fu.get("e") == "end" and fu.get("uaf") == 0 and fu.get("corrupted") == 0 and (fu.get("alive") or fu.get("live") or fu.get("lviol") or fu.get("dfree"))
        c04_kind = c04_kind or (fu.get("e") == "bad" and fu.get("how") == "double_drop")
        where = ("bulk:%s:%s" % (job["bulk"]["how"], job["bulk"]["hint"])) if bulk else job.get("cfg")
        sig = "%s:%s:%s" % (fu.get("e"), fu.get("how", fu.get("ty", "")), where)
        if pid == "C04" and not c04_kind:
            # the first rejected event is a memory-safety one (C03's); C04 still owns the run when it also
            # holds exactly-once evidence further on (a double drop / double free / leak in the end state)
            later = [x for x in p["ev"] if (x.get("e") == "bad" and x.get("how") == "double_drop") or
                     (x.get("e") == "end" and (x.get("alive") or x.get("live") or x.get("lviol") or x.get("dfree")))]
            if not later:
                continue     # reported by the sibling check only
            fu = later[0]
            sig = "%s:%s:%s" % (fu.get("e"), fu.get("how", fu.get("ty", "")), where)
        elif pid == "C03" and c04_kind:
            continue     # reported by the sibling check
        verdict.violation(sig, rid, {"job": job2, "events": p["ev"][max(0, d["matched_events"] - 8):d["matched_events"] + 2], "diagnosis": d,
                                     "end": trace.get("end")},
                          "job %s: life-cycle event %d of %d rejected by Trace_Reclaim: %s" % (rid, d["matched_events"] + 1, d["total_events"], json.dumps(fu)))
    cov = {"states": max(v["states"], 1), "transitions": max(v["states"], 1), "traces_validated_against_impl": len(v["accepted"]),
           "evaluations": len(jobs) + len(bjobs), "distinct_nontrivial": sum(1 for p in projected if sum(1 for e in p["ev"] if e["e"] == "free") >= 2),
           "rule": "scheduled programs (tree-bin contention, multi-generation resizes, per-key and whole-map mixes; guards held per thread or per "
                   "op; collector batch 1/2/8/default) + bulk constructors (collect/extend, sizes 0..200, size hints exact/zero/half, four hashers); "
                   "non-trivial = at least two blocks were freed during the run",
           "samples": [[e for e in projected[0]["ev"] if e["e"] in ("retire", "free")][:6]] if projected else [],
           "outcomes": outcomes, "retire_events": nret, "free_events": nfree, "bulk_jobs": len(bjobs), "rejected": len(v["rejected"]),
           "tlc_trace_validation": {"states": v["states"], "distinct": v["distinct"], "wall_s": round(v["wall"], 1)}}
    lib.add_spec_coverage(cov, pid, tier)
    rc = verdict.finish()
    lib.write_evidence(pid, tier, seed, "model_checking", cov, time.time() - t0, len(verdict.violations),
                       ["seize 0.3.3 frees a retired object only after every guard active at its retirement was dropped (epoch filtering off)",
                        "accesses through stale references that neither call deref again nor write are seen only via the key/value ledger and the checksum",
                        "TLC / SANY"])
    return rc
