"""Job generators: initial configurations (canonical prefixes), per-key programs, schedules."""
import random

PERKEY_MAP = ["get", "get_key_value", "contains_key", "insert", "try_insert", "remove", "remove_entry", "compute"]
PERKEY_SET = ["get", "contains", "insert", "remove", "take"]


class Uids:
    def __init__(self, start=100):
        self.n = start

    def next(self, k=1):
        v = self.n
        self.n += k
        return v


def ins(k, uids, tag=1, op="insert"):
    return {"op": op, "k": k, "tag": tag, "n": uids.next()}


def table_hasher(h):
    """h: dict id -> hash; ids not listed hash to themselves"""
    n = max(h) + 1 if h else 0
    return {"kind": "table", "table": [h.get(i, i) for i in range(n)]}


def configs():
    """name -> function(rng, uids) -> dict(cap, hasher, prefix(list of ops), hot(keys the
    programs should use), universe(all keys to look up at the end))"""
    C = {}

    def cap0_distinct(rng, u):
        return dict(cap=0, hasher=table_hasher({}), prefix=[], hot=[1, 2, 3], universe=[1, 2, 3])

    def cap0_equal(rng, u):
        return dict(cap=0, hasher=table_hasher({1: 5, 2: 5, 3: 5, 4: 5}), prefix=[], hot=[1, 2, 3], universe=[1, 2, 3, 4])

    def two_bins(rng, u):
        # with_capacity(1) -> 2 bins, threshold 2: the second insert already resizes
        pre = [ins(2, u)] if rng.random() < 0.5 else []
        return dict(cap=1, hasher=table_hasher({1: 0, 2: 2, 3: 4, 4: 1}), prefix=pre, hot=[1, 2, 3, 4], universe=[1, 2, 3, 4])

    def same_bin_16(rng, u):
        # 16 bins, keys 1,2,3 in one bin with different hashes (1, 17, 33), a few present
        pre = [ins(k, u) for k in rng.sample([1, 2, 3], rng.randint(0, 3))]
        return dict(cap=8, hasher=table_hasher({1: 1, 2: 17, 3: 33, 4: 2}), prefix=pre, hot=[1, 2, 3, 4], universe=[1, 2, 3, 4])

    def thr16(rng, u):
        # 16 bins (cap 10 -> 16), threshold 12: prefix fills 11 -> next new key resizes 16 -> 32
        h = {i: i for i in range(1, 12)}
        h.update({20: 3, 21: 19, 22: 35, 23: 12, 24: 28})   # 20,21,22 share bin 3 with key 3; split on resize
        pre = [ins(k, u) for k in range(1, 12)]
        return dict(cap=10, hasher=table_hasher(h), prefix=pre, hot=[3, 20, 21, 22, 23, 24], universe=list(range(1, 12)) + [20, 21, 22, 23, 24])

    def thr64(rng, u):
        # 64 bins (cap 43), threshold 48: prefix fills 47 -> a resize 64 -> 128 with 4 strides of 16
        h = {i: i for i in range(1, 48)}
        h.update({60: 5, 61: 69, 62: 133, 63: 50, 64: 114, 65: 63})
        pre = [ins(k, u) for k in range(1, 48)]
        return dict(cap=43, hasher=table_hasher(h), prefix=pre, hot=[5, 60, 61, 62, 63, 64, 65], universe=list(range(1, 48)) + [60, 61, 62, 63, 64, 65])

    def list8(rng, u):
        # 64 bins; 8 keys with equal hashes in one bin: the ninth colliding insert treeifies
        h = {i: 7 for i in range(1, 13)}
        pre = [ins(k, u) for k in range(1, 9)]
        return dict(cap=43, hasher=table_hasher(h), prefix=pre, hot=[1, 8, 9, 10, 11], universe=list(range(1, 13)))

    def tree9(rng, u):
        # tree bin of 9 (equal hashes)
        h = {i: 7 for i in range(1, 13)}
        pre = [ins(k, u) for k in range(1, 10)]
        return dict(cap=43, hasher=table_hasher(h), prefix=pre, hot=[1, 5, 9, 10, 11], universe=list(range(1, 13)))

    def tree_mixed(rng, u):
        # tree bin of 10 with different hashes sharing bin 7 of a 64-bin table
        h = {i: 7 + 64 * (i % 4) for i in range(1, 14)}
        pre = [ins(k, u) for k in range(1, 11)]
        return dict(cap=43, hasher=table_hasher(h), prefix=pre, hot=[2, 3, 10, 11, 12], universe=list(range(1, 14)))

    def tree_shrink(rng, u):
        # tree bin at the untreeify boundary: removals convert it back to a list
        h = {i: 7 for i in range(1, 13)}
        pre = [ins(k, u) for k in range(1, 10)] + [{"op": "remove", "k": k} for k in (9, 8, 7, 6)]
        return dict(cap=43, hasher=table_hasher(h), prefix=pre, hot=[1, 2, 3, 4, 5], universe=list(range(1, 13)))

    def default_hasher(rng, u):
        pre = [ins(k, u) for k in rng.sample(range(1, 9), rng.randint(0, 6))]
        return dict(cap=rng.choice([0, 1, 3, 8]), hasher={"kind": "default"}, prefix=pre, hot=[1, 2, 3, 4, 5], universe=list(range(1, 9)))

    for f in (cap0_distinct, cap0_equal, two_bins, same_bin_16, thr16, thr64, list8, tree9, tree_mixed, tree_shrink, default_hasher):
        C[f.__name__] = f
    return C


WHOLE_MAP = ["clear", "retain", "retain_force", "reserve", "extend", "iter", "len"]
WHOLE_SET = ["clear", "retain", "reserve", "extend", "iter", "len"]


def whole_op(rng, kind, hot, uids):
    op = rng.choice(WHOLE_SET if kind == "set" else WHOLE_MAP)
    o = {"op": op}
    if op in ("retain", "retain_force"):
        o.update(f=rng.choice(["even", "odd", "none", "keep", "drop"]), keys=rng.sample(hot, rng.randint(0, len(hot))))
    elif op == "reserve":
        o.update(n=rng.choice([1, 20, 100, 200]))
    elif op == "extend":
        ks = [rng.choice(hot) for _ in range(rng.randint(1, 4))]
        o.update(keys=ks, tag=rng.randint(1, 3), n=uids.next(len(ks) + 1), pl=rng.randint(0, 5))
    return o


def perkey_op(rng, kind, hot, uids, weights=None):
    alpha = PERKEY_SET if kind == "set" else PERKEY_MAP
    op = rng.choice(alpha)
    k = rng.choice(hot)
    o = {"op": op, "k": k}
    if op in ("insert", "try_insert"):
        o["tag"] = rng.randint(1, 3)
        o["n"] = uids.next()
        o["pl"] = rng.randint(0, 5)
    if op == "compute":
        o["f"] = rng.choice(["inc", "inc", "none", "const"])
        o["n"] = uids.next()
    return o


def schedule(rng, nthreads, est_len=200):
    r = rng.random()
    seed = rng.randint(0, 1 << 30)
    if r < 0.4:
        return {"kind": "random", "seed": seed}
    if r < 0.7:
        return {"kind": "pct", "seed": seed, "d": rng.randint(1, 3), "len": est_len}
    if r < 0.9:
        return {"kind": "sticky", "seed": seed, "p": rng.choice([200, 230, 250])}
    return {"kind": "rr", "q": rng.randint(1, 5)}


def conc_job(rng, jid, cfgname=None, nthreads=None, maxops=3, kinds=("map", "map", "set"), rec=(), whole=0.0):
    C = configs()
    name = cfgname or rng.choice(list(C))
    u = Uids()
    c = C[name](rng, u)
    kind = rng.choice(kinds)
    nt = nthreads or rng.choice([2, 2, 3, 3, 4])
    threads = []
    for _ in range(nt):
        threads.append([whole_op(rng, kind, c["hot"], u) if rng.random() < whole else perkey_op(rng, kind, c["hot"], u)
                        for _ in range(rng.randint(1, maxops))])
    prefix = c["prefix"]
    if kind == "set":
        prefix = [p for p in prefix if p["op"] in ("insert", "remove")]
    est = 40 * sum(len(t) for t in threads)
    return {"id": jid, "cfg": name, "kind": kind, "pin": rng.random() < 0.4,
            "scope": rng.choice(["thread", "op"]), "hasher": c["hasher"], "cap": c["cap"],
            "batch": rng.choice([1, 1, 2, 0]), "prefix": prefix, "threads": threads,
            "sched": schedule(rng, nt, est), "finals": c["universe"], "rec": list(rec),
            "budget": 100000}
