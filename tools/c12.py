"""C12 — reads never block and never take locks. Probe driver: for sampled j the writers of a program
are run to their j-th scheduled step (inside bin critical sections, tree restructuring, bin migration,
table initialisation), frozen there, and one read operation (get / get_key_value / contains_key /
full iteration / len / equality) is run alone on the real crate; in three of ten probes the read has
already begun (it has loaded the table) before the writers run, so it resumes in a replaced table. TLC validates each probe against
Trace_Solo: finished by its own steps, no lock / park / spin-wait announced, steps <= B(structure)."""
import random
import time

import c11
import gen
import lib


def reader_prog(rng, kind, keys):
    r = rng.random()
    if r < 0.55:
        op = rng.choice(["get", "get_key_value", "contains_key"]) if kind == "map" else rng.choice(["get", "contains"])
        return [{"op": op, "k": rng.choice(keys)} for _ in range(rng.randint(1, 3))]
    if r < 0.8:
        return [{"op": rng.choice(["iter", "keys", "values"]) if kind == "map" else "iter"}]
    if r < 0.9:
        return [{"op": "len"}]
    return [{"op": "eq_other", "keys": rng.sample(keys, min(3, len(keys))), "pl": 0}]


def run(pid, tier, seed, njobs=None):
    t0 = time.time()
    verdict = lib.Verdict(pid)
    rng = random.Random(seed)
    n = njobs or (1200 if tier == "quick" else 15000)
    jobs = []
    names = list(gen.configs())
    for i in range(n):
        if i % 3 == 0:
            j = c11.tree_contention_job(rng, "c12-%05d" % i)
            j["threads"] = [t for t in j["threads"] if any(o["op"] not in ("get", "contains_key", "get_key_value") for o in t)] or j["threads"][:1]
        elif i % 3 == 1:
            import c10
            j = c10.multigen_job(rng, "c12-%05d" % i)
            j["rec"] = []
        else:
            j = gen.conc_job(rng, "c12-%05d" % i, cfgname=names[i % len(names)], whole=0.3, maxops=4)
            if j["sched"].get("kind") == "os":
                j["sched"] = gen.schedule(rng, len(j["threads"]))
        keys = j["finals"]
        rd = reader_prog(rng, j["kind"], keys)
        j["threads"] = j["threads"] + [rd]
        reader = len(j["threads"]) - 1
        est = 30 * sum(len(t) for t in j["threads"][:-1])
        j["probe"] = {"reader": reader, "freeze_after": rng.randint(0, max(est, 10)), "max": 200000}
        j["nops_reader"] = len(rd)
        if rng.random() < 0.3:
            # the read is already under way when the writers run: it has loaded the table (or taken a few more steps) and
            # resumes, alone, in a table that has been replaced once or several times meanwhile
            pre = {"run": reader, "until": {"kind": "load", "ty": "table", "nth": 1}} if rng.random() < 0.6 else {"run": reader, "steps": rng.randint(1, 8)}
            j["script"] = [pre] + list(j.get("script") or [])
            j["stale_reader"] = 1
        jobs.append(j)
    res = lib.run_jobs(jobs, "c12", procs=8, timeout=1800)
    projected, byid = [], {}
    frozen_in_lock = 0
    for job, trace, crash in res:
        if crash is not None:
            verdict.violation("crash:%s" % (crash.get("signal") or crash["rc"]), job["id"], {"job": job, "crash": crash},
                              "job %s crashed/hung (%s)" % (job["id"], str(crash)[:200]))
            continue
        pr = [e for e in trace["ev"] if e.get("e") == "probe"]
        if not pr:
            continue
        e = pr[0]
        sn = e.get("snap") or {}
        nodes = bins = 0
        anylocked = False
        for t in sn.get("tables", []):
            bins += len(t["bins"])
            for b in t["bins"]:
                nodes += len(b.get("nodes", []))
                if b.get("locked") or b.get("ls"):
                    anylocked = True
        frozen_in_lock += 1 if anylocked else 0
        p = {"id": trace["id"], "ev": [{"done": e["done"], "locks": e["locks"], "parks": e["parks"], "spins": e["spins"],
                                        "reader_steps": e["reader_steps"], "nodes": nodes, "bins": bins, "nops": job["nops_reader"] + 1}]}
        byid[p["id"]] = (job, trace, p)
        projected.append(p)
    v = lib.validate_traces("Trace_Solo", projected, "c12", workers=4)
    for rid in v["rejected"]:
        job, trace, p = byid[rid]
        job2 = dict(job)
        e = p["ev"][0]
        what = "lock" if e["locks"] else "park" if e["parks"] else "spin" if e["spins"] else "blocked" if not e["done"] else "steps"
        verdict.violation("reader-%s:%s" % (what, job["threads"][-1][0]["op"]), rid, {"job": job2, "probe": e, "writer_schedule": trace["schedule"]},
                          "job %s: reader %s run alone with the writers frozen after %d steps: %s" % (rid, job["threads"][-1], job["probe"]["freeze_after"], e))
    cov = {"states": max(v["states"], 1), "transitions": max(v["states"], 1), "traces_validated_against_impl": len(v["accepted"]),
           "evaluations": len(jobs), "distinct_nontrivial": frozen_in_lock,
           "rule": "probe = (program, schedule seed, freeze point j, read operation); writers frozen after j scheduled steps; non-trivial = "
                   "at the freeze point some bin mutex or tree lock word is held",
           "samples": [projected[0]["ev"][0]] if projected else [], "rejected": len(v["rejected"])}
    lib.add_spec_coverage(cov, pid, tier)
    rc = verdict.finish()
    lib.write_evidence(pid, tier, seed, "model_checking", cov, time.time() - t0, len(verdict.violations),
                       ["every lock acquisition, park and spin-wait of the crate is announced by a hook", "TLC / SANY"])
    return rc
