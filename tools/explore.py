"""Bounded-exhaustive exploration of the real crate: for a tiny program ALL schedules with at most k forced context
switches (at the granularity of the hooks: every shared-memory access is a scheduling point) are executed; every
execution is replayed through Flurry.tla (Trace_Flurry, one TLC run per program: the executions share the
specification's constants) and its history is checked by Trace_Lin. Default policy between forced switches: the
running thread continues while it can (sticky), otherwise the lowest runnable thread."""
import json
import os
import time

import lib
import project
import stepconf


def _ins(k, v, tag=1, pl=0):
    return {"op": "insert", "k": k, "tag": tag, "n": v, "pl": pl}


# name -> (capacity, prefix keys, threads)
PROGRAMS = {
    "resize_vs_remove": dict(cap=1, pre=[1], threads=[[_ins(3, 201)], [{"op": "remove", "k": 1}]], props={"C01", "C10", "C05"}),
    "resize_vs_get": dict(cap=1, pre=[1], threads=[[_ins(3, 201)], [{"op": "get", "k": 1}, {"op": "get", "k": 3}]], props={"C01", "C12"}),
    "two_resizers": dict(cap=1, pre=[1], threads=[[_ins(2, 201)], [_ins(4, 202)]], props={"C01", "C10"}),
    "init_race": dict(cap=0, pre=[], threads=[[_ins(1, 201)], [{"op": "try_insert", "k": 1, "tag": 2, "n": 202, "pl": 0}]], props={"C01", "C10", "C11"}),
    "compute_vs_replace": dict(cap=2, pre=[1, 5], threads=[[{"op": "compute", "k": 5, "f": "inc", "n": 201}], [_ins(5, 202, 2, 3)]], props={"C01", "C08"}),
    "compute_remove_vs_insert": dict(cap=2, pre=[1, 5], threads=[[{"op": "compute", "k": 1, "f": "none", "n": 0}], [_ins(1, 202, 2, 0), {"op": "get", "k": 5}]], props={"C08", "C01"}),
    "clear_vs_resize": dict(cap=1, pre=[1], threads=[[{"op": "clear"}], [_ins(3, 201)]], props={"C05", "C03"}),
    "iter_vs_resize": dict(cap=1, pre=[1], threads=[[{"op": "iter"}], [_ins(3, 201)]], props={"C07"}),
    "retain_vs_replace": dict(cap=2, pre=[1, 5], threads=[[{"op": "retain", "f": "none", "keys": [], "n": 0}], [_ins(5, 202, 2, 1)]], props={"C13"}),
    "reserve_vs_insert": dict(cap=1, pre=[1], threads=[[{"op": "reserve", "n": 2}], [_ins(2, 201)]], props={"C14", "C10"}),
    "three_threads": dict(cap=1, pre=[1], threads=[[_ins(3, 201)], [_ins(5, 202)], [{"op": "get", "k": 1}]], props={"C01", "C10"}, k=1),
}


def job_of(name, jid):
    p = PROGRAMS[name]
    return {"id": jid, "cfg": "explore-" + name, "kind": "map", "pin": False, "scope": "op", "hasher": {"kind": "table", "table": list(range(0, 12))},
            "cap": p["cap"], "batch": 0, "prefix": [_ins(k, 100 + k) for k in p["pre"]], "threads": json.loads(json.dumps(p["threads"])),
            "sched": {"kind": "list", "steps": [], "sticky": True}, "finals": sorted({1, 2, 3, 4, 5}), "rec": ["step", "site", "alts"], "budget": 100000}


def explore(name, k, limit=20000):
    """returns (list of (job, trace), truncated?)"""
    nth = len(PROGRAMS[name]["threads"])
    seen = {}
    level = [[]]
    depth = 0
    n = 0
    truncated = False
    while level and depth <= k:
        jobs = []
        for pre in level:
            j = job_of(name, "x%s-%06d" % (name[:6], n))
            n += 1
            j["sched"] = {"kind": "list", "steps": pre, "sticky": True}
            jobs.append(j)
        res = lib.run_jobs(jobs, "explore", procs=8, timeout=1800)
        nxt = []
        for job, trace, crash in res:
            if crash is not None:
                seen[("crash", job["id"])] = (job, None, crash)
                continue
            S = tuple(trace["schedule"])
            if S in seen:
                continue
            seen[S] = (job, trace, None)
            pre = job["sched"]["steps"]
            alts = trace.get("alts", [])
            if depth < k:
                for i in range(len(pre), min(len(S), len(alts))):
                    for u in range(nth):
                        if (alts[i] >> u) & 1 and u != S[i]:
                            nxt.append(list(S[:i]) + [u])
        if len(seen) + len(nxt) > limit:
            nxt = nxt[:max(0, limit - len(seen))]
            truncated = True
        level = nxt
        depth += 1
    return list(seen.values()), truncated


def leg(pid, tier, seed, verdict):
    """bounded-exhaustive exploration of the programs that serve `pid`"""
    cov = {}
    consts = stepconf.consts()
    for name, p in PROGRAMS.items():
        if pid not in p["props"]:
            continue
        k = p.get("k", 2) if tier == "quick" else p.get("k", 2) + 1
        t0 = time.time()
        runs, truncated = explore(name, k, limit=4000 if tier == "quick" else 9000)
        recs, lins, byid = [], [], {}
        allops = {o["op"] for t in p["threads"] for o in t}
        hist_module = None if "clear" in allops else "Trace_Hist" if allops & {"iter", "retain", "retain_force"} else "Trace_Lin"
        for job, trace, crash in runs:
            if crash is not None:
                verdict.violation("explore:crash:%s" % name, job["id"], {"job": job, "crash": crash},
                                  "program %s: the crate crashed/hung under schedule %s (%s)" % (name, job["sched"]["steps"], str(crash)[:200]))
                continue
            if trace["outcome"] != "Done":
                job2 = dict(job, sched={"kind": "list", "steps": trace["schedule"], "sticky": True})
                verdict.violation("explore:%s:%s" % (trace["outcome"], name), job["id"], {"job": job2},
                                  "program %s: run ends %s under schedule %s" % (name, trace["outcome"], list(trace["schedule"])[:60]))
                continue
            panics = [e for e in trace["ev"] if e.get("e") == "thread_panic" or (e.get("e") == "ret" and e.get("panic"))]
            if panics:
                job2 = dict(job, sched={"kind": "list", "steps": trace["schedule"], "sticky": True})
                verdict.violation("explore:panic:%s" % name, job["id"], {"job": job2, "panics": panics[:3]},
                                  "program %s, schedule %s: an operation panicked (%s)" % (name, list(trace["schedule"])[:60], str(panics[0])[:200]))
                continue
            pr = project.flurry_projection(trace, job, consts)
            if pr is None:
                raise lib.ToolError("exploration program %s left the specification's alphabet" % name)
            recs.append(pr)
            byid[pr["id"]] = (job, trace)
            # history monitor: Trace_Lin for per-key programs, Trace_Hist when the program iterates or retains; a program
            # with clear() has no atomic history to judge (the replay through Flurry.tla and its QuiescentOK / GhostOK do)
            if hist_module == "Trace_Lin":
                lins.append(project.lin_projection(trace, job))
            elif hist_module == "Trace_Hist":
                lins.append(project.hist_projection(trace, job))
        # one TLC run for all executions of the program (same constants)
        tf = os.path.join(lib.WORK, "explore_%s_%s.p%d.ndjson" % (pid.lower(), name, os.getpid()))
        with open(tf, "w") as f:
            for r in recs:
                f.write(json.dumps(r) + "\n")
        r = lib.run_tlc("Trace_Flurry", cfg="Trace_Flurry.cfg", env={"TRACE": tf, "DIAG": "0"}, workers=6, timeout=3000, xmx="6g")
        if r["timeout"] or ("No error has been found" not in r["out"] and "is violated" not in r["out"]):
            raise lib.ToolError("TLC failed on the executions of %s:\n%s" % (name, r["out"][-2000:]))
        import re
        acc = set(re.findall(r'<<"ACCEPT", "([^"]+)">>', r["out"]))
        rej = [x["id"] for x in recs if x["id"] not in acc]
        os.remove(tf)
        for rid in rej[:5]:
            job, trace = byid[rid]
            d = stepconf.validate([x for x in recs if x["id"] == rid], "explore_d", procs=1)[0]
            job2 = dict(job, sched={"kind": "list", "steps": trace["schedule"], "sticky": True})
            verdict.violation("explore:step:%s" % name, rid, {"job": job2, "at": d.get("at"), "model": d.get("model"), "invariant": d.get("invariant")},
                              "program %s, schedule %s: the execution is not a behaviour of Flurry.tla (event %s; model: %s; invariant: %s)"
                              % (name, list(trace["schedule"])[:80], d.get("at"), d.get("model"), d.get("invariant")))
        lv = lib.validate_traces(hist_module, lins, "explore_lin", workers=4, timeout=1800) if hist_module else {"accepted": set(), "rejected": []}
        for rid in lv["rejected"][:5]:
            job, trace = byid[rid]
            job2 = dict(job, sched={"kind": "list", "steps": trace["schedule"], "sticky": True})
            verdict.violation("explore:hist:%s" % name, rid, {"job": job2}, "program %s, schedule %s: the history is rejected by %s" % (name, list(trace["schedule"])[:80], hist_module))
        cov[name] = {"forced_switches_up_to": k, "schedules_executed": len(runs), "truncated": truncated, "accepted_by_trace_flurry": len(acc),
                     "history_monitor": hist_module or "none (clear)", "histories_accepted": len(lv["accepted"]), "rejected": len(rej) + len(lv["rejected"]), "tlc_states": r["states"],
                     "longest_schedule": max([len(t["schedule"]) for _, t, c in runs if t] or [0]), "wall_s": round(time.time() - t0, 1)}
    return cov


# ------------------------------------------------------------------------------------------
# tree bins: the same bounded-exhaustive exploration, judged by the history / structure / lock / life-cycle monitors
# (tree bins are outside Flurry.tla's replay, see DESIGN 5.3a)

def _tree_pre(n=10):
    return [_ins(k, 100 + k) for k in range(1, n + 1)]


TREE_PROGRAMS = {
    # 10 colliding keys in bin 7 of a 64-bin table (a tree bin); names: what the two threads do
    "tree_remove_vs_get": dict(pre=_tree_pre(), threads=[[{"op": "remove", "k": 4}], [{"op": "get", "k": 7}, {"op": "get", "k": 4}]], props={"C01", "C06", "C11", "C12"}),
    "tree_insert_vs_get": dict(pre=_tree_pre(), threads=[[_ins(11, 211)], [{"op": "get", "k": 11}, {"op": "get_key_value", "k": 3}]], props={"C01", "C06", "C11"}),
    "tree_insert_vs_remove": dict(pre=_tree_pre(), threads=[[_ins(11, 211)], [{"op": "remove", "k": 2}]], props={"C01", "C06", "C11", "C03"}),
    "tree_untreeify_vs_insert": dict(pre=_tree_pre(9) + [{"op": "remove", "k": k} for k in (9, 8, 7, 6, 5)],
                                     threads=[[{"op": "remove", "k": 1}, {"op": "remove", "k": 2}], [_ins(11, 211), {"op": "get", "k": 3}]], props={"C01", "C06", "C03", "C05"}),
    "tree_compute_vs_replace": dict(pre=_tree_pre(), threads=[[{"op": "compute", "k": 5, "f": "inc", "n": 211}], [_ins(5, 212, 2, 3)]], props={"C08", "C01"}),
    "tree_iter_vs_remove": dict(pre=_tree_pre(), threads=[[{"op": "iter"}], [{"op": "remove", "k": 3}, _ins(12, 212)]], props={"C07", "C12"}),
    "tree_retain_vs_replace": dict(pre=_tree_pre(), threads=[[{"op": "retain", "f": "even", "keys": [], "n": 0}], [_ins(3, 212, 2, 1)]], props={"C13"}),
}


def tree_job_of(name, jid):
    p = TREE_PROGRAMS[name]
    h = [7] * 16
    return {"id": jid, "cfg": "explore-" + name, "kind": "map", "pin": False, "scope": "op", "hasher": {"kind": "table", "table": h},
            "cap": 42, "batch": 1, "prefix": json.loads(json.dumps(p["pre"])), "threads": json.loads(json.dumps(p["threads"])),
            "sched": {"kind": "list", "steps": [], "sticky": True}, "finals": list(range(1, 13)), "rec": ["step", "site", "alts", "snap", "mem"],
            "budget": 200000}


def explore_tree(name, k, limit=20000):
    nth = len(TREE_PROGRAMS[name]["threads"])
    seen = {}
    level = [[]]
    depth = 0
    n = 0
    truncated = False
    while level and depth <= k:
        jobs = []
        for pre in level:
            j = tree_job_of(name, "y%s-%06d" % (name[5:11], n))
            n += 1
            j["sched"] = {"kind": "list", "steps": pre, "sticky": True}
            jobs.append(j)
        res = lib.run_jobs(jobs, "exploret", procs=8, timeout=3000)
        nxt = []
        for job, trace, crash in res:
            if crash is not None:
                seen[("crash", job["id"])] = (job, None, crash)
                continue
            S = tuple(trace["schedule"])
            if S in seen:
                continue
            seen[S] = (job, trace, None)
            pre = job["sched"]["steps"]
            alts = trace.get("alts", [])
            if depth < k:
                for i in range(len(pre), min(len(S), len(alts))):
                    for u in range(nth):
                        if (alts[i] >> u) & 1 and u != S[i]:
                            nxt.append(list(S[:i]) + [u])
        if len(seen) + len(nxt) > limit:
            nxt = nxt[:max(0, limit - len(seen))]
            truncated = True
        level = nxt
        depth += 1
    return list(seen.values()), truncated


def tree_leg(pid, tier, seed, verdict):
    cov = {}
    for name, p in TREE_PROGRAMS.items():
        if pid not in p["props"]:
            continue
        k = 1 if tier == "quick" else 2
        t0 = time.time()
        runs, truncated = explore_tree(name, k, limit=1500 if tier == "quick" else 6000)
        hists, rbs, tls, rcs, byid = [], [], [], [], {}
        for job, trace, crash in runs:
            if crash is not None:
                verdict.violation("exploretree:crash:%s" % name, job["id"], {"job": job, "crash": crash},
                                  "program %s: the crate crashed/hung under schedule %s (%s)" % (name, job["sched"]["steps"], str(crash)[:200]))
                continue
            job2 = dict(job, sched={"kind": "list", "steps": trace["schedule"], "sticky": True})
            panics = [e for e in trace["ev"] if e.get("e") == "thread_panic" or (e.get("e") == "ret" and e.get("panic"))]
            if panics or trace["outcome"] != "Done":
                verdict.violation("exploretree:%s:%s" % ("panic" if panics else trace["outcome"], name), job["id"], {"job": job2, "panics": panics[:3]},
                                  "program %s, schedule %s: %s" % (name, list(trace["schedule"])[:60], ("panic " + str(panics[0])[:200]) if panics else "run ends " + trace["outcome"]))
                continue
            byid[trace["id"]] = job2
            hists.append(project.hist_projection(trace, job))
            rb = project.rb_projection(trace, job)
            if rb["ev"]:
                rbs.append(rb)
            tl = project.treelock_projection(trace, job)
            if tl["ev"]:
                tls.append(tl)
            rcs.append(project.reclaim_projection(trace, job))
        rej = 0
        for module, traces, what in (("Trace_Hist", hists, "history"), ("Trace_RB", rbs, "tree structure"), ("Trace_TreeLock", tls, "lock protocol"),
                                     ("Trace_Reclaim", rcs, "object life cycle")):
            if module == "Trace_Hist" and pid in ("C06",):
                pass
            v = lib.validate_traces(module, traces, "exploret_" + module[6:].lower(), workers=6, timeout=3000, chunk=800)
            rej += len(v["rejected"])
            for rid in v["rejected"][:3]:
                verdict.violation("exploretree:%s:%s" % (module, name), rid, {"job": byid.get(rid)},
                                  "program %s, schedule %s: the %s is rejected by %s" % (name, (byid.get(rid) or {}).get("sched", {}).get("steps", [])[:80], what, module))
        cov[name] = {"forced_switches_up_to": k, "schedules_executed": len(runs), "truncated": truncated, "rejected": rej,
                     "monitors": ["Trace_Hist", "Trace_RB", "Trace_TreeLock", "Trace_Reclaim"],
                     "longest_schedule": max([len(t["schedule"]) for _, t, c in runs if t] or [0]), "wall_s": round(time.time() - t0, 1)}
    return cov
