"""C14 — capacity contract. Sequential runs on the real crate with collision-free (identity) and
colliding table-driven hashers; the inspector reports table length and count around every
operation; TLC validates the recorded sequence against Trace_Capacity (never shrinks, power of
two, grows only in reserve/extend or in an insert that reaches 3/4 of the length or meets an
overfull bin in a table shorter than 64, never in a removing operation; with_capacity(c) /
reserve(a) leave room for c / a collision-free entries; capacity 0 allocates nothing)."""
import random
import time

import c02
import gen
import lib
import project

IDENT = ("identity", gen.table_hasher({}))


def fill_job(jid, kind, c, pin):
    ops = [{"op": "obs"}] + [{"op": "insert", "k": k, "tag": 1, "n": 1000 + k, "pl": 0} for k in range(1, c + 1)] + [{"op": "obs"}]
    return {"id": jid, "cfg": "fill", "kind": kind, "pin": pin, "scope": "thread", "hasher": IDENT[1], "cap": c, "batch": 0,
            "prefix": ops, "threads": [], "finals": [], "check_each": False, "rec": [], "fills": [(0, 1, c, 1)]}


def reserve_job(jid, kind, m, a, cap, pin):
    ops = [{"op": "insert", "k": k, "tag": 1, "n": 1000 + k, "pl": 0} for k in range(1, m + 1)]
    ops += [{"op": "reserve", "n": a}, {"op": "obs"}]
    ops += [{"op": "insert", "k": k, "tag": 1, "n": 5000 + k, "pl": 0} for k in range(m + 1, m + a + 1)] + [{"op": "obs"}]
    return {"id": jid, "cfg": "reserve", "kind": kind, "pin": pin, "scope": "thread", "hasher": IDENT[1], "cap": cap, "batch": 0,
            "prefix": ops, "threads": [], "finals": [], "check_each": False, "rec": [], "fills": [(0, 1, a, 0)]}


def boundary_job(rng, jid, kind, nbins_cap, removing):
    """fill a table to one below its threshold, then apply a removing operation, then refill"""
    u = gen.Uids()
    c = nbins_cap
    ops = []
    # identity hasher: with_capacity(c) -> len L; threshold T = L - L/4
    L = 1
    while L < c + (c >> 1) + 1:
        L <<= 1
    T = L - (L >> 2)
    ops += [{"op": "insert", "k": k, "tag": 1, "n": u.next(), "pl": k % 3} for k in range(1, T)]
    ops += removing(rng, u, T)
    ops += [{"op": "insert", "k": k, "tag": 1, "n": u.next(), "pl": 0} for k in (T + 5, T + 6)]
    return {"id": jid, "cfg": "boundary", "kind": kind, "pin": rng.random() < 0.5, "scope": "thread", "hasher": IDENT[1], "cap": c,
            "batch": 0, "prefix": ops, "threads": [], "finals": [], "check_each": True, "rec": ["snap"]}


def removers(kind):
    def r_remove(rng, u, T):
        return [{"op": "remove", "k": rng.randint(1, T - 1)}]
    def r_entry(rng, u, T):
        return [{"op": "remove_entry" if kind == "map" else "take", "k": rng.randint(1, T - 1)}]
    def r_compute(rng, u, T):
        return [{"op": "compute", "k": rng.randint(1, T - 1), "f": "none", "n": u.next()}]
    def r_compute_inc(rng, u, T):
        return [{"op": "compute", "k": rng.randint(1, T - 1), "f": "inc", "n": u.next()}]
    def r_retain(rng, u, T):
        return [{"op": "retain", "f": "drop", "keys": [rng.randint(1, T - 1)]}]
    def r_retain_force(rng, u, T):
        return [{"op": "retain_force", "f": "drop", "keys": [rng.randint(1, T - 1)]}]
    def r_clear(rng, u, T):
        return [{"op": "clear"}]
    rs = [r_remove, r_entry, r_retain, r_clear]
    if kind == "map":
        rs += [r_compute, r_compute_inc, r_retain_force]
    return rs


def run(pid, tier, seed, njobs=None):
    t0 = time.time()
    verdict = lib.Verdict(pid)
    rng = random.Random(seed)
    jobs = []
    n = 0
    cmax = 260 if tier == "quick" else 3000
    for c in list(range(0, cmax)) + ([4095, 4096, 4097, 21845, 21846, 65535] if tier != "quick" else [1365, 1366]):
        jobs.append(fill_job("c14-f%05d" % n, "set" if c % 4 == 3 else "map", c, c % 2 == 1)); n += 1
    for m, a, cap in [(m, a, cap) for m in (0, 1, 5, 11, 12, 30) for a in (0, 1, 2, 7, 13, 48, 100) for cap in (0, 1, 10)]:
        jobs.append(reserve_job("c14-r%05d" % n, "map" if n % 3 else "set", m, a, cap, n % 2 == 0)); n += 1
    for cap in (1, 2, 5, 10, 21, 42):
        for kind in ("map", "set"):
            for rm in removers(kind):
                jobs.append(boundary_job(rng, "c14-b%05d" % n, kind, cap, rm)); n += 1
    # overfull bins: 9..14 colliding keys in tables of 16 / 32 / 64 / 128 bins (growth only below 64 bins)
    for cap in (10, 21, 40, 42, 85):
        for hname, hv in (("const", 5), ("samebin", None)):
            for kind in ("map", "set"):
                nk = 14
                h = {k: (hv if hv is not None else 3 + 256 * k) for k in range(0, nk + 2)}
                ops = [{"op": "insert", "k": k, "tag": 1, "n": 3000 + k, "pl": 0} for k in range(1, nk + 1)]
                ops += [{"op": "insert", "k": 3, "tag": 2, "n": 3100, "pl": 0}, {"op": "remove", "k": 2}]
                jobs.append({"id": "c14-v%05d" % n, "cfg": "overfull-%s-cap%d" % (hname, cap), "kind": kind, "pin": n % 2 == 0, "scope": "thread",
                             "hasher": gen.table_hasher(h), "cap": cap, "batch": 0, "prefix": ops, "threads": [], "finals": [],
                             "check_each": True, "rec": ["snap"]}); n += 1
    nrand = (njobs or (300 if tier == "quick" else 4000))
    hs = [IDENT, ("const", gen.table_hasher({k: 5 for k in range(0, 40)})), ("samebin", gen.table_hasher({k: 3 + 64 * k for k in range(0, 40)}))]
    for i in range(nrand):
        keys = list(range(1, 30)) if i % 2 else list(range(1, 14))
        j = c02.make_job(rng, "c14-s%05d" % n, rng.randint(10, 60), hasher=hs[i % 3], keys=keys, cap=rng.choice([0, 1, 2, 5, 10]))
        jobs.append(j); n += 1
    res = lib.run_jobs(jobs, "c14", procs=8)
    projected, byid = [], {}
    for job, trace, crash in res:
        if crash is not None:
            verdict.violation("crash:%s" % (crash.get("signal") or crash["rc"]), job["id"], {"job": job, "crash": crash},
                              "the crate crashed/hung while running job %s (%s)" % (job["id"], crash))
            continue
        p = project.capacity_projection(trace, job)
        byid[p["id"]] = (job, trace, p)
        projected.append(p)
    distinct = lib.dedupe(projected)
    v = lib.validate_traces("Trace_Capacity", distinct, "c14", workers=6)
    for rid in v["rejected"]:
        job, trace, p = byid[rid]
        d = lib.diagnose_trace("Trace_Capacity", p, "c14")
        fu = d["first_unmatched"] or {}
        if fu.get("e") == "fill":
            sig = "fill:%s" % ("with_capacity" if fu.get("fresh") else "reserve")
        else:
            sig = "grow:%s:%s" % (fu.get("kind"), fu.get("op"))
        verdict.violation(sig, rid, {"job": job, "event": fu, "diagnosis": {k: d[k] for k in ("matched_events", "total_events")}},
                          "job %s breaks the capacity rules at event %d: %s" % (rid, d["matched_events"] + 1, fu))
    # concurrent leg: which operation starts a resize (overdue resizes: inserts piled up during a finishing sweep)
    import c10
    cjobs = [c10.overdue_job(rng, "c14-o%05d" % i) for i in range(60 if tier == "quick" else 600)]
    cjobs += [c10.multigen_job(rng, "c14-m%05d" % i) for i in range(30 if tier == "quick" else 300)]
    cres = lib.run_jobs(cjobs, "c14c", procs=8, timeout=1800)
    starts, sbyid = [], {}
    for job, trace, crash in cres:
        if crash is not None:
            verdict.violation("crash:%s:%s" % (job["cfg"], crash.get("signal") or crash["rc"]), job["id"], {"job": job, "crash": crash},
                              "the crate crashed/hung while running job %s (%s)" % (job["id"], str(crash)[:300]))
            continue
        if trace["outcome"] != "Done":
            continue
        sp = project.growth_start_projection(trace, job)
        if sp["ev"]:
            starts.append(sp)
            sbyid[sp["id"]] = (job, trace, sp)
    sv = lib.validate_traces("Trace_Capacity", starts, "c14c", workers=4)
    for rid in sv["rejected"]:
        job, trace, sp = sbyid[rid]
        d = lib.diagnose_trace("Trace_Capacity", sp, "c14c")
        fu = d["first_unmatched"] or {}
        job2 = dict(job)
        job2["sched"] = {"kind": "list", "steps": trace["schedule"]}
        job2.pop("script", None)
        verdict.violation("start:%s" % fu.get("op"), rid, {"job": job2, "event": fu},
                          "job %s: a resize was started by thread %s inside %s(): only insert-like operations and reserve / extend grow the table"
                          % (rid, fu.get("t"), fu.get("op")))
    grows = sum(1 for p in distinct for e in p["ev"] if e["e"] == "op" and e["lena"] > e["lenb"])
    cov = {"states": max(v["states"], 1), "transitions": max(v["states"], 1),
           "traces_validated_against_impl": len(v["accepted"]), "evaluations": len(jobs),
           "distinct_nontrivial": sum(1 for p in distinct if any(e["e"] == "fill" or e["lena"] != e["lenb"] for e in p["ev"])),
           "rule": "with_capacity(c)+c collision-free inserts for every c in 0..%d (map and set), reserve(a) grids, tables filled to "
                   "threshold-1 followed by every removing operation, and seeded op sequences with identity / constant / same-bin hashers; "
                   "distinct = distinct event sequence; non-trivial = contains a fill event or a table growth" % (cmax - 1),
           "samples": [distinct[-1]["ev"][:4]] if distinct else [], "growth_events": grows,
           "concurrent_leg": {"jobs": len(cjobs), "runs_with_a_resize_start": len(starts), "resize_starts": sum(len(sp["ev"]) for sp in starts),
                              "starts_by_op": {op: sum(1 for sp in starts for e in sp["ev"] if e["op"] == op) for op in sorted({e["op"] for sp in starts for e in sp["ev"]})},
                              "rejected": len(sv["rejected"])},
           "rejected": len(v["rejected"]) + len(sv["rejected"]),
           "tlc_trace_validation": {"states": v["states"], "distinct": v["distinct"], "wall_s": round(v["wall"], 1)}}
    # bounded-exhaustive exploration of tiny programs on the real crate, every execution replayed through Flurry.tla
    import explore
    cov["bounded_exhaustive_exploration"] = explore.leg(pid, tier, seed, verdict)
    lib.add_spec_coverage(cov, pid, tier)
    rc = verdict.finish()
    lib.write_evidence(pid, tier, seed, "model_checking", cov, time.time() - t0, len(verdict.violations),
                       ["the inspector's table length and count", "collision-free = identity hash of key ids smaller than the table length", "TLC / SANY"])
    return rc
