#!/usr/bin/env python3
"""Regenerates /verif/MANIFEST.json from the table below (single source of truth)."""
import json
import os
import subprocess

VERIF = os.path.dirname(os.path.dirname(os.path.abspath(__file__)))

CLAIMED = {
    "C01": dict(
        cat="model_checking", ref="DESIGN.md §7 C01",
        technique="TLC trace validation of recorded call/return histories against the abstract-map TLA+ spec (Trace_Lin) + TLC exhaustive check of the implementation-shaped spec",
        text="Every explored execution of the real crate (programs of 2-4 threads over 11 initial table shapes, scheduled at "
             "shared-access granularity by the cooperative scheduler, plus real-thread runs) yields a call/return history that TLC "
             "accepts against the abstract map specification: some linearization explains every result and the final lookups. "
             "The design itself is checked exhaustively by TLC on the implementation-shaped specification for small constants.",
        note="Trusted: TLC/SANY, the harness scheduler and recorder, hooks at every shared access (a missing hook only coarsens "
             "exploration). Bounded: sampled schedules on the real code; exhaustive only on the model."),
    "C08": dict(
        cat="model_checking", ref="DESIGN.md §7 C08",
        technique="TLC trace validation (Trace_Lin with closure-argument and invocation-count conditions)",
        text="compute_if_present-heavy programs on one or two keys; the monitor additionally requires the value handed to the "
             "closure to be the linearized current value, at most one invocation per call and exactly one if the key is present.",
        note="As C01."),
}

NOT_APPLICABLE = {
    "C16": "compile-time verdict of rustc's borrow checker over a corpus of programs; there is no state, transition or trace for a TLA+ specification to describe (DESIGN.md §7)",
    "C17": "compile-time verdict of rustc's trait solver (Send/Sync bounds); no state, transition or trace for a TLA+ specification to describe (DESIGN.md §7)",
}


def main():
    props = [json.loads(l) for l in open(os.path.join(VERIF, "properties.jsonl"))]
    try:
        commits = subprocess.run(["git", "-C", "/repo", "log", "--format=%H %s"], stdout=subprocess.PIPE, text=True).stdout.splitlines()
        hook_commits = [c.split()[0] for c in commits if "verif hooks" in c]
    except Exception:
        hook_commits = []
    checks = []
    for pid, c in CLAIMED.items():
        checks.append({
            "property_id": pid,
            "quick_cmd": "./check %s --tier quick" % pid,
            "thorough_cmd": "./check %s --tier thorough" % pid,
            "evidence_file": "/verif/evidence/%s.json" % pid,
            "replay_cmd_template": "./check %s --replay {path}" % pid,
            "engine": "tlc+fvh",
            "level_claimed": {"category": c["cat"], "text": c["text"], "design_ref": c["ref"]},
            "level_note": c["note"],
            "technique": c["technique"],
        })
    na = []
    for p in props:
        if p["id"] in CLAIMED:
            continue
        na.append({"property_id": p["id"],
                   "reason": NOT_APPLICABLE.get(p["id"], "check not built yet (build in progress; see DESIGN.md §12)")})
    m = {
        "version": 1,
        "setup_cmd": "./setup.sh",
        "hooks": {
            "guard": "cfg(flurry_verif)",
            "enable": "rustflags --cfg flurry_verif in /verif/harness/.cargo/config.toml (harness has a path dependency on /repo)",
            "baseline_off_cmd": "cd /repo && cargo test --workspace --no-fail-fast --offline",
            "source_commits": hook_commits,
            "add_only": True,
        },
        "engines": [
            {"name": "tlc", "path": "/verif/spec", "serves_properties": sorted(CLAIMED),
             "kind_free_text": "TLA+ specifications checked with TLC: exhaustive model checking of small configurations and validation of traces recorded from the real crate"},
            {"name": "fvh", "path": "/verif/harness", "serves_properties": sorted(CLAIMED),
             "kind_free_text": "Rust harness: cooperative scheduler over cfg(flurry_verif) hooks, quarantine allocator, instrumented key/value types, inspector projection, job runner"},
        ],
        "checks": checks,
        "notes": "See DESIGN.md. ./check <ID> --tier quick|thorough; exit 0 = held on everything explored, 1 = VIOLATION line(s), 2 = tool error.",
        "not_applicable": na,
    }
    json.dump(m, open(os.path.join(VERIF, "MANIFEST.json"), "w"), indent=1)


if __name__ == "__main__":
    main()
