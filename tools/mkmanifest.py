#!/usr/bin/env python3
"""Regenerates /verif/MANIFEST.json from the table below (single source of truth)."""
import json
import os
import subprocess

VERIF = os.path.dirname(os.path.dirname(os.path.abspath(__file__)))

CLAIMED = {
    "C01": dict(
        cat="model_checking", ref="DESIGN.md §7 C01",
        technique="TLC trace validation of recorded call/return histories against the abstract-map TLA+ spec (Trace_Lin) + TLC exhaustive check of the implementation-shaped spec (Flurry.tla) + step-level conformance: Flurry.tla's own actions replayed by TLC along the recorded stream of shared-memory accesses (Trace_Flurry), and TLC-generated behaviours of Flurry.tla stepped through the crate access by access (Gen_Flurry / specreplay)",
        text="Every explored execution of the real crate (programs of 2-4 threads over 11 initial table shapes, scheduled at "
             "shared-access granularity by the cooperative scheduler, plus real-thread runs) yields a call/return history that TLC "
             "accepts against the abstract map specification: some linearization explains every result and the final lookups. "
             "The design itself is checked exhaustively by TLC on the implementation-shaped specification for small constants.",
        note="Trusted: TLC/SANY, the harness scheduler and recorder, hooks at every shared access (a missing hook only coarsens "
             "exploration). Bounded: sampled schedules on the real code; exhaustive only on the model."),
    "C08": dict(
        cat="model_checking", ref="DESIGN.md §7 C08",
        technique="TLC trace validation (Trace_Lin with closure-argument and invocation-count conditions) + step-level conformance with Flurry.tla (Trace_Flurry: the critical section of compute is one specification action)",
        text="compute_if_present-heavy programs on one or two keys; the monitor additionally requires the value handed to the "
             "closure to be the linearized current value, at most one invocation per call and exactly one if the key is present.",
        note="As C01."),
}

CLAIMED.update({
    "C02": dict(
        cat="model_checking", ref="DESIGN.md §7 C02",
        technique="TLC trace validation of recorded sequential runs against the sequential TLA+ spec (SeqOps / Trace_Seq); op sequences from a seeded generator and from TLC simulation of FlurrySeq",
        text="Op sequences over the whole public API are replayed into HashMap/HashSet through both facades for five hashers and "
             "seven capacities; TLC validates every return value and, after every step, len/is_empty, the full contents via iteration "
             "and via lookup of every key against the sequential specification (first key kept, payloads, set relations, Debug, Index).",
        note="Trusted: TLC/SANY, the harness's observation code. Bounded: sampled sequences (small key universe), not all."),
    "C05": dict(
        cat="model_checking", ref="DESIGN.md §7 C05",
        technique="TLC evaluation of the TLA+ predicate QuiescentOK (Trace_Quiescent) on inspector snapshots + iter/get/len results recorded at quiescent points; QuiescentOK / GhostOK also evaluated on executions replayed through Flurry.tla (Trace_Flurry)",
        text="Every quiescent observation (after each step of sequential runs; after all threads of scheduled concurrent programs with "
             "resizes, helpers, tree conversions, clears joined) is checked by TLC: iteration = lookups = len, every entry where its "
             "hash is searched, no duplicate, no forwarding marker / next table / negative size_ctl, power-of-two length, nothing locked.",
        note="Trusted: the cfg-gated inspector (reads the real table), TLC. Bounded: observed executions only."),
    "C09": dict(
        cat="exploration", ref="DESIGN.md §7 C09",
        technique="enumeration of the foreign-guard variant of every guard-taking method (alphabet completeness checked against /repo/src), outcomes validated by TLC against Trace_Seq",
        text="Finite API-surface property: every guard-accepting public method of HashMap/HashSet, directly and through with_guard "
             "wrappers, on empty / 1-entry / tree-bin collections, must panic and leave the state untouched; the model is the oracle.",
        note="The method list is extracted from the sources by a regex over `pub fn`; a new guard-taking method without a model operation makes the check exit 2."),
    "C14": dict(
        cat="model_checking", ref="DESIGN.md §7 C14",
        technique="TLC trace validation of recorded table-length/count sequences against the capacity rules (Trace_Capacity)",
        text="with_capacity(c)+c collision-free inserts for every c in a range, reserve grids, tables at threshold-1 followed by every "
             "removing operation, and seeded sequences; TLC checks: never shrinks, power of two, grows only in reserve/extend or in an "
             "insert that reaches 3/4 of the length or meets an overfull bin in a table < 64, never in a removing operation.",
        note="Lazy allocation of the first table is not counted as growth (see DESIGN.md). Trusted: inspector, TLC."),
    "C18": dict(
        cat="model_checking", ref="DESIGN.md §7 C18",
        technique="fault-point enumeration (panic at the i-th callback) replayed under catch_unwind; outcomes and all later observations validated by TLC against Trace_Seq; scheduled threads then write the same bins",
        text="Sequences with a panic injected at the i-th invocation of the compute / retain / retain_force closure or in iterator-consuming "
             "code, on list and tree bins: TLC checks the entry is unchanged, earlier removals of that call persist, every later "
             "observation agrees with the model; two scheduled threads then write the same bins and must finish (no leaked lock).",
        note="Trusted: catch_unwind boundary in the harness, TLC."),
    "C19": dict(
        cat="exploration", ref="DESIGN.md §7 C19",
        technique="exhaustive enumeration of small documents / item multisets for serde and rayon paths; outcomes validated by TLC against Trace_Bulk",
        text="Data property: all documents of <=4 entries over 2 keys x 2 values, malformed-type documents, all multisets of <=4..5 items "
             "for par_extend/from_par_iter with pools 1,2,4, round trips; never a panic, contents = some interleaving of the inserts.",
        note="Trusted: serde_json, rayon, TLC."),
})

CLAIMED.update({
    "C10": dict(
        cat="model_checking", ref="DESIGN.md §7 C10",
        technique="TLC trace validation of recorded resize site events against the resize-protocol monitor (Trace_Resize); scripted critical schedules; TLC exhaustive check of the resize protocol in the implementation-shaped spec; step-level conformance: every size_ctl / transfer_index / table / bin access of recorded resizes replayed through Flurry.tla with ResizeSafe evaluated on the replayed states (Trace_Flurry)",
        text="2-4 scheduled threads across one or more resize generations (tables of 2..64 bins, inserts / reserve / overfull small bins / "
             "writers hitting forwarding markers) plus scripted scenarios; TLC checks on the recorded site events: a resize starts only on "
             "the current table when none is open, helpers join the open resize with its own tables, each bin is forwarded once, exactly "
             "one finishing thread (the last to leave), one publication of a table twice as long after all bins moved, quiescent end "
             "not resizing with threshold 3/4 of the length, drop does not panic.",
        note="Site events are emitted after the state change and before the thread's next yield point; scheduler runs only. "
             "Found and fixed F6 (stale helper joins a later resize)."),
    "C11": dict(
        cat="model_checking", ref="DESIGN.md §7 C11",
        technique="TLC: deadlock freedom + <>AllDone under weak fairness on TreeBinLock.tla and Flurry.tla; cooperative scheduler makes blocking a state, runs validated against Trace_Live; step-level conformance of the recorded lock-word / waiter / park / unpark events with TreeBinLock.tla (Trace_TreeLock: no lost wake-up obligation per step)",
        text="(A) TLC exhaustively checks the tree-bin read-write lock protocol (writer, 2 readers, spurious wake-ups): mutual exclusion, no "
             "deadlock / lost wake-up, termination under weak fairness; Flurry.tla is checked for <>AllDone under weak fairness of every thread on nineteen programs "
             "(initialisation race, reserve, overfull bins, helped resizes, clear()'s wait for the publication, retain, tree bins) with a deliberately wrong clear() and a deliberately wrong try_presize that must violate it. (B) The real crate under the scheduler: every explored run of "
             "reader/writer mixes on tree bins, the initialisation race and resizing tables ends with all calls returned and nothing locked.",
        note="Fairness as the property assumes; park/unpark token semantics; hooks at every blocking site."),
    "C12": dict(
        cat="model_checking", ref="DESIGN.md §7 C12",
        technique="probe driver (writers frozen at a sampled yield point, reader - fresh or already holding an older table - run alone) validated by TLC against Trace_Solo; ReadersNeverBlock invariant on TreeBinLock.tla",
        text="For sampled (program, schedule, freeze point) the writers are frozen inside critical sections / tree restructuring / bin "
             "migration and one read operation runs alone on the real crate: it must finish by its own steps, announce no lock "
             "acquisition, park or spin-wait, and stay within a generous structural step bound.",
        note="Every lock acquisition, park and spin-wait of the crate is announced by a hook (a new unhooked lock would be missed)."),
})

CLAIMED.update({
    "C07": dict(
        cat="model_checking", ref="DESIGN.md §7 C07",
        technique="TLC trace validation of recorded iteration histories (yield events + concurrent call/returns) against Trace_Hist",
        text="An iterating thread (iter/keys/values, map and set) with 1-3 writers on 11 table shapes, including a 4-bin table resized 2-3 "
             "times during the iteration and tree bins with removals; random/PCT schedules and scripted ones that complete whole (nested) "
             "resizes between two next() calls. TLC accepts a history iff some linearization of the concurrent calls makes every yielded "
             "entry one that was in the map since the iterator's creation and every entry present and untouched throughout yielded exactly once.",
        note="Found on the pinned tree: F5 (traverser dereferences a null `first`), see known_findings.json."),
    "C13": dict(
        cat="model_checking", ref="DESIGN.md §7 C13",
        technique="TLC trace validation (Trace_Hist: predicate verdicts + conditional-removal linearization points)",
        text="A retain / retain_force thread racing replacements, removals and computes of the inspected keys; TLC accepts iff each rejected "
             "entry is removed exactly when its value is still the inspected one (retain) / whenever present (retain_force), no other "
             "entry is removed, and the traversal showed every untouched entry to the predicate exactly once.",
        note="Sequential equality with a reference retain is part of C02."),
})

CLAIMED.update({
    "C03": dict(
        cat="model_checking", ref="DESIGN.md §7 C03",
        technique="TLC trace validation of recorded life-cycle events (retire with reachability bit, free, guards, canaries, use-after-free announcements of the quarantine allocator) against Trace_Reclaim",
        text="Scheduled programs with readers holding references across retiring writers (removals, replacements, clears, resizes, tree "
             "conversions; collector batch 1/2/8/default) and bulk constructors with exact/zero/lying size hints: TLC checks that nothing is "
             "retired while reachable, retired twice or freed while a guard live at its retirement is live, no hook-announced access hits a "
             "freed block, no freed block is written, every reference handed out holds until its guard is released.",
        note="Decided at the level of the reclamation protocol plus the accesses hooks, ledger and checksums can see, not every machine load. "
             "Trusted: seize 0.3.3 (epoch filtering off in the job's collector), the quarantine allocator."),
    "C04": dict(
        cat="model_checking", ref="DESIGN.md §7 C04",
        technique="instance ledger of instrumented key/value types + tracked-block accounting, validated by TLC against Trace_Reclaim's end condition and double-drop rule",
        text="Every key/value instance (including clones made by resizes and tree conversions) is dropped exactly once by the time map and "
             "collector are gone, none twice, no tracked block of the map left allocated; frees of displaced values respect the guards live "
             "at their retirement (shared with C03's runs).",
        note="As C03."),
    "C06": dict(
        cat="model_checking", ref="DESIGN.md §7 C06",
        technique="the red-black algorithms of node.rs transcribed into TLA+ (TreeBinOps): TLC checks the invariants on every insertion/removal sequence (TreeBinRB) and replays every recorded sequential step of the real tree bins through the transcription, demanding the identical structure (Trace_RBStep); invariants also evaluated on inspector dumps of concurrent runs (Trace_RB), plus Eq/Ord call counts of lookups",
        text="Insertion/removal sequences over up to 60 keys with equal hashes, four hash classes per bin and resize splits, plus concurrent "
             "writers: after every step TLC checks on the real links: ordered by (hash,key), black root, no red-red, equal black height, "
             "parent/child and prev/next consistency, list set = tree set; lookups of present and absent keys stay within 4*ceil(log2(n+1))+2 "
             "key comparisons for bins of n >= 8 in tables >= 64.",
        note="Key Ord total and consistent with Eq. Trusted: inspector, instrumented key comparison counter."),
})

CLAIMED.update({
    "C15": dict(
        cat="model_checking", ref="DESIGN.md §7 C15",
        technique="TLC replay of the recorded stream of atomic operations through a TLA+ vector-clock memory model (MemModel / Trace_HB); orderings of control-word accesses read from the source",
        text="Scheduler-controlled runs record every atomic operation with the ordering its call site passes (pointer cells via the hook's "
             "ordering parameter, control words via a table parsed from the source at the hook's line), bin-mutex lock/unlock, park/unpark, "
             "allocations and cross-thread dereferences; TLC recomputes happens-before and requires every dereferenced object's "
             "initialisation to happen-before the dereference and every load of a location last written Relaxed by another thread to be "
             "ordered after that store (publication through bins, lists, values, tree links, copies by transfer/treeify/untreeify).",
        note="Guarded loads are SeqCst whatever ordering is passed (seize 0.3.3 protect); SeqCst treated as acquire+release; covers the paths the "
             "explored runs take. TreeNode::red is not hooked."),
})

NOT_APPLICABLE = {
    "C16": "compile-time verdict of rustc's borrow checker over a corpus of programs; there is no state, transition or trace for a TLA+ specification to describe (DESIGN.md §7)",
    "C17": "compile-time verdict of rustc's trait solver (Send/Sync bounds); no state, transition or trace for a TLA+ specification to describe (DESIGN.md §7)",
}


def main():
    props = [json.loads(l) for l in open(os.path.join(VERIF, "properties.jsonl"))]
    try:
        commits = subprocess.run(["git", "-C", "/repo", "log", "--format=%H %s"], stdout=subprocess.PIPE, text=True).stdout.splitlines()
        hook_commits = [c.split()[0] for c in commits if "verif hooks" in c]
    except Exception:
        hook_commits = []
    checks = []
    for pid, c in CLAIMED.items():
        checks.append({
            "property_id": pid,
            "quick_cmd": "./check %s --tier quick" % pid,
            "thorough_cmd": "./check %s --tier thorough" % pid,
            "evidence_file": "/verif/evidence/%s.json" % pid,
            "replay_cmd_template": "./check %s --replay {path}" % pid,
            "engine": "tlc+fvh",
            "level_claimed": {"category": c["cat"], "text": c["text"], "design_ref": c["ref"]},
            "level_note": c["note"],
            "technique": c["technique"],
        })
    na = []
    for p in props:
        if p["id"] in CLAIMED:
            continue
        na.append({"property_id": p["id"],
                   "reason": NOT_APPLICABLE.get(p["id"], "check not built yet (build in progress; see DESIGN.md §12)")})
    m = {
        "version": 1,
        "setup_cmd": "./setup.sh",
        "hooks": {
            "guard": "cfg(flurry_verif)",
            "enable": "rustflags --cfg flurry_verif in /verif/harness/.cargo/config.toml (harness has a path dependency on /repo)",
            "baseline_off_cmd": "cd /repo && cargo test --workspace --no-fail-fast --offline",
            "source_commits": hook_commits,
            "add_only": True,
        },
        "engines": [
            {"name": "tlc", "path": "/verif/spec", "serves_properties": sorted(CLAIMED),
             "kind_free_text": "TLA+ specifications checked with TLC: exhaustive model checking of small configurations and validation of traces recorded from the real crate"},
            {"name": "fvh", "path": "/verif/harness", "serves_properties": sorted(CLAIMED),
             "kind_free_text": "Rust harness: cooperative scheduler over cfg(flurry_verif) hooks, quarantine allocator, instrumented key/value types, inspector projection, job runner"},
        ],
        "checks": checks,
        "notes": "See DESIGN.md. ./check <ID> --tier quick|thorough; exit 0 = held on everything explored, 1 = VIOLATION line(s), 2 = tool error.",
        "not_applicable": na,
    }
    json.dump(m, open(os.path.join(VERIF, "MANIFEST.json"), "w"), indent=1)


if __name__ == "__main__":
    main()
