"""C01 / C08 — linearizability of the per-key API.

(A) exhaustive: TLC on the implementation-shaped specification (MC_list*, see spec/), invariant
    Linearizable;  (B) code->spec: programs run on the real crate under the cooperative scheduler
    and with real threads; every recorded history validated by TLC against Trace_Lin."""
import json
import random
import time

import gen
import lib
import project


def make_jobs(seed, n, only_compute=False, tag="c01"):
    rng = random.Random(seed)
    jobs = []
    names = list(gen.configs())
    for i in range(n):
        cfg = names[i % len(names)]
        j = gen.conc_job(rng, "%s-%05d" % (tag, i), cfgname=cfg)
        if only_compute:
            # C08: compute-heavy programs on one or two keys
            hot = j["finals"][:2] if j["cfg"] not in ("thr16", "thr64") else j["finals"][-3:-1]
            u = gen.Uids(5000)
            wide = [k for k in j["finals"] if k not in hot]
            j["kind"] = "map"
            if not any(p.get("k") == hot[0] for p in j["prefix"]):
                j["prefix"] = j["prefix"] + [gen.ins(hot[0], u)]
            thr = []
            for _ in range(rng.choice([2, 3, 3])):
                prog = []
                for _ in range(rng.randint(1, 3)):
                    r = rng.random()
                    if r < 0.6:
                        prog.append({"op": "compute", "k": rng.choice(hot), "f": rng.choice(["inc", "inc", "inc", "none", "const"]), "n": u.next()})
                    else:
                        # structural neighbours: inserts / removals of other keys of the same bins
                        prog.append(gen.perkey_op(rng, "map", hot + wide, u))
                thr.append(prog)
            j["threads"] = thr
        jobs.append(j)
    if not only_compute:
        import c11
        for i in range(0, n, 12):
            jobs[i] = c11.stale_reader_job(rng, "%s-%05d" % (tag, i))
        for i in range(5, n, 6):
            jobs[i] = c11.tree_contention_job(rng, "%s-%05d" % (tag, i))
    # a share of the jobs runs with real threads (no scheduler)
    for j in jobs[:: 10]:
        j["sched"] = {"kind": "os"}
    return jobs


def run(pid, tier, seed, njobs=None, only_compute=False):
    t0 = time.time()
    verdict = lib.Verdict(pid)
    n = njobs or (1200 if tier == "quick" else 12000)
    jobs = make_jobs(seed, n, only_compute=only_compute, tag=pid.lower())
    res = lib.run_jobs(jobs, pid.lower(), procs=8)
    projected = []
    outcomes = {}
    byid = {}
    for job, trace, crash in res:
        if crash is not None:
            outcomes["crash"] = outcomes.get("crash", 0) + 1
            verdict.violation("crash:%s:%s" % (job["cfg"], crash.get("signal") or ("hang" if crash["hung"] else crash["rc"])),
                              job["id"], {"job": job, "crash": crash},
                              "the crate crashed/hung while running job %s (%s)" % (job["id"], crash))
            continue
        outcomes[trace["outcome"]] = outcomes.get(trace["outcome"], 0) + 1
        if trace["outcome"] != "Done":
            # not a linearizability verdict (C11 judges termination); recorded as coverage only
            continue
        p = project.lin_projection(trace, job)
        byid[p["id"]] = (job, trace, p)
        projected.append(p)
    distinct = lib.dedupe(projected)
    v = lib.validate_traces("Trace_Lin", distinct, pid.lower(), workers=6)
    for rid in v["rejected"]:
        job, trace, p = byid[rid]
        d = lib.diagnose_trace("Trace_Lin", p, pid.lower())
        job2 = dict(job)
        job2["sched"] = {"kind": "list", "steps": trace["schedule"]} if job["sched"].get("kind") != "os" else job["sched"]
        verdict.violation("nonlinearizable:%s" % job["cfg"], rid,
                          {"job": job2, "history": p, "diagnosis": d},
                          "history %s is not linearizable: matched %d of %d events, first unmatched %s"
                          % (rid, d["matched_events"], d["total_events"], json.dumps(d["first_unmatched"])))
    nontriv = sum(1 for p in distinct if project.nontrivial_lin(p))
    sample = distinct[0] if distinct else {}
    cov = {
        "states": max(v["states"], 1), "transitions": max(v["states"], 1),
        "traces_validated_against_impl": len(v["accepted"]),
        "evaluations": len(jobs), "distinct_nontrivial": nontriv,
        "rule": "programs of 2-4 threads x 1-3 per-key ops over 11 initial configurations (null table, 2/16/64 bins, "
                "at the resize threshold, list bin of 8, tree bins) run on the real crate under random/PCT/sticky/round-robin "
                "schedules at shared-access granularity and (every 10th) with real threads; distinct = distinct call/return "
                "history; non-trivial = two operations of different threads on one key overlap and one is an update",
        "samples": [{"history": sample.get("ev", [])[-12:]}],
        "outcomes": outcomes, "distinct_histories": len(distinct), "rejected": len(v["rejected"]),
        "tlc_trace_validation": {"states": v["states"], "distinct": v["distinct"], "wall_s": round(v["wall"], 1)},
    }
    # step-level conformance with Flurry.tla: the specification's own actions replayed along recorded executions
    import stepconf
    sc = stepconf.leg(pid, tier, seed, verdict, n=(120 if tier == "quick" else 1200))
    cov["step_conformance"] = sc
    # the other direction: behaviours of Flurry.tla generated by TLC stepped through the crate
    import specreplay
    cov["spec_to_code_replay"] = specreplay.leg(pid, tier, seed, verdict)
    cov["states"] = cov.get("states", 0) + sc["tlc_states"]
    cov["transitions"] = cov.get("transitions", 0) + sc["tlc_states"]
    cov["traces_validated_against_impl"] = cov.get("traces_validated_against_impl", 0) + sc["accepted"]
    # bounded-exhaustive exploration of tiny programs on the real crate, every execution replayed through Flurry.tla
    import explore
    cov["bounded_exhaustive_exploration"] = explore.leg(pid, tier, seed, verdict)
    cov["bounded_exhaustive_exploration_tree_bins"] = explore.tree_leg(pid, tier, seed, verdict)
    lib.add_spec_coverage(cov, pid, tier)
    rc = verdict.finish()
    lib.write_evidence(pid, tier, seed, "model_checking", cov, time.time() - t0, len(verdict.violations),
                       ["hooks are placed at every shared access (a missing hook only coarsens exploration)",
                        "Eq/Ord/Hash of keys are consistent", "TLC / SANY"])
    return rc
