"""C06 — crowded bins are balanced search trees: logarithmic lookups, consistent links.
Insertion / removal sequences over keys with equal hashes and over keys sharing a bin with
different hashes (up to 60 per bin; treeification, shrinking, untreeify, resize splits of tree
bins, concurrent writers) run on the real crate; after every step the inspector's dump of each tree
bin and the number of Eq/Ord calls of lookups (present and absent keys) are validated by TLC against
Trace_RB (ordered by (hash,key), red-black colouring, equal black height, parent/child and
prev/next consistency, list set = tree set, comparisons <= 4*ceil(log2(n+1))+2).
The algorithms themselves (TreeBin::new, find_or_put_tree_val, remove_tree_node, rotations,
balance_insertion / balance_deletion, find_tree_node) are transcribed in TreeBinOps.tla: TLC checks the
same invariants on every insertion / removal sequence (TreeBinRB.tla), and Trace_RBStep replays every
recorded sequential step of the real crate through the transcription and demands the identical structure
(links, colours, list order; treeification, "too small" answers and resize splits included)."""
import random
import time

import c02
import c11
import gen
import lib
import project


def seq_job(rng, jid):
    u = gen.Uids()
    shape = rng.choice(["equal", "equal", "mixed", "split"])
    K = rng.choice([14, 20, 30, 60])
    keys = list(range(1, K + 1))
    if shape == "equal":
        h = {k: 7 for k in keys}
    elif shape == "mixed":
        h = {k: 7 + 64 * (k % 4) for k in keys}
    else:
        h = {k: 7 + 64 * (k % 2) for k in keys}
    ops = []
    present = set()
    order = keys[:]
    rng.shuffle(order)
    mode = rng.choice(["asc", "desc", "rand"])
    if mode == "asc":
        order.sort()
    elif mode == "desc":
        order.sort(reverse=True)
    nsteps = rng.randint(K, 3 * K)
    for i in range(nsteps):
        r = rng.random()
        if (r < 0.62 or len(present) < 9) and len(present) < K:
            k = next(x for x in order if x not in present)
            ops.append(gen.ins(k, u))
            present.add(k)
        elif r < 0.9 and present:
            k = rng.choice(sorted(present))
            ops.append({"op": rng.choice(["remove", "remove_entry", "compute"]), "k": k, "f": "none", "n": u.next()})
            present.discard(k)
        else:
            ops.append({"op": "probe_cmp", "keys": keys + [K + 1, K + 2]})
    ops.append({"op": "probe_cmp", "keys": keys + [K + 1, K + 2]})
    if rng.random() < 0.4:
        # drain: remove until the bin reports "too small" and is turned back into a list, and beyond
        rest = sorted(present)
        rng.shuffle(rest)
        for k in rest[:rng.randint(len(rest) // 2, len(rest))]:
            if rng.random() < 0.15:
                ops.append(gen.ins(k, u))          # replacement: the structure must not change
            ops.append({"op": rng.choice(["remove", "remove_entry", "compute"]), "k": k, "f": "none", "n": u.next()})
            present.discard(k)
        ops.append({"op": "probe_cmp", "keys": keys})
    if shape == "split":
        # fill other bins until the table doubles: the tree bin is split into a low and a high bin
        filler = [1000 + i for i in range(0, 60)]
        for f in filler:
            h[f] = (f * 2 + 1) % 64 if (f * 2 + 1) % 64 != 7 else 9
        ops += [gen.ins(f, u) for f in filler[:rng.randint(30, 60)]]
        ops.append({"op": "probe_cmp", "keys": keys})
        keys = keys + filler
    n = max(h) + 1
    table = [h.get(i, i) for i in range(n)]
    return {"id": jid, "cfg": "rb-" + shape, "kind": "map", "pin": rng.random() < 0.3, "scope": "thread",
            "hasher": {"kind": "table", "table": table}, "cap": 42, "batch": 0, "prefix": ops, "threads": [], "finals": keys,
            "check_each": True, "rec": ["snap", "site"]}


def run(pid, tier, seed, njobs=None):
    t0 = time.time()
    verdict = lib.Verdict(pid)
    rng = random.Random(seed)
    n = njobs or (240 if tier == "quick" else 1500)
    jobs = []
    for i in range(n):
        if i % 4 == 3:
            j = c11.tree_contention_job(rng, "c06-%05d" % i)
            j["rec"] = ["snap"]
            jobs.append(j)
        else:
            jobs.append(seq_job(rng, "c06-%05d" % i))
    res = lib.run_jobs(jobs, "c06", procs=8, timeout=1800)
    projected, byid = [], {}
    for job, trace, crash in res:
        if crash is not None:
            verdict.violation("crash:%s:%s" % (job["cfg"], crash.get("signal") or crash["rc"]), job["id"], {"job": job, "crash": crash},
                              "the crate crashed/hung while running job %s (%s)" % (job["id"], str(crash)[:300]))
            continue
        if trace["outcome"] != "Done":
            continue
        panics = [e for e in trace["ev"] if e.get("e") == "thread_panic" or (e.get("e") == "ret" and e.get("panic"))]
        if panics:
            verdict.violation("panic:%s" % job["cfg"], job["id"], {"job": job, "panics": panics[:3]},
                              "job %s: an operation on a tree bin panicked (the crate's own debug self-check or an internal assertion)" % job["id"])
            continue
        p = project.rb_projection(trace, job)
        if p["ev"]:
            byid[p["id"]] = (job, trace, p)
            projected.append(p)
    v = lib.validate_traces("Trace_RB", projected, "c06", workers=8, timeout=2400, chunk=400)
    for rid in v["rejected"]:
        job, trace, p = byid[rid]
        d = lib.diagnose_trace("Trace_RB", p, "c06")
        fu = d["first_unmatched"] or {}
        job2 = dict(job)
        if job.get("threads"):
            job2["sched"] = {"kind": "list", "steps": trace["schedule"]}
        what = "cmp" if fu.get("e") == "cmp" else "shape"
        verdict.violation("%s:%s" % (what, job["cfg"]), rid, {"job": job2, "event": fu, "diagnosis": {k: d[k] for k in ("matched_events", "total_events")}},
                          "job %s: observation %d of %d violates the tree-bin invariants: %s" % (rid, d["matched_events"] + 1, d["total_events"], str(fu)[:400]))
    # step-level conformance with the transcribed algorithms (TreeBinOps.tla): every sequential operation on a
    # tree bin, every treeification and every resize split must produce exactly the structure the model computes
    steps, sbyid = [], {}
    for job, trace, crash in res:
        if crash is None and trace["outcome"] == "Done" and not job.get("threads"):
            sp = project.rbstep_projection(trace, job)
            if sp["ev"]:
                steps.append(sp)
                sbyid[sp["id"]] = (job, sp)
    sv = lib.validate_traces("Trace_RBStep", steps, "c06s", workers=8, timeout=2400, chunk=400)
    for rid in sv["rejected"]:
        job, sp = sbyid[rid]
        d = lib.diagnose_trace("Trace_RBStep", sp, "c06s")
        fu = d["first_unmatched"] or {}
        verdict.violation("step:%s:%s" % (fu.get("e"), job["cfg"]), rid, {"job": job, "event": fu, "diagnosis": {k: d[k] for k in ("matched_events", "total_events")}},
                          "job %s: step %d of %d (%s) leaves the tree bin in a structure the red-black algorithms do not produce: %s"
                          % (rid, d["matched_events"] + 1, d["total_events"], fu.get("e"), str(fu)[:300]))
    step_kinds = {}
    for sp in steps:
        for e in sp["ev"]:
            step_kinds[e["e"]] = step_kinds.get(e["e"], 0) + 1
    # binding self-test: one recorded colour flipped must be rejected
    selftest = "skipped"
    cand = next((sp for sp in steps if sp["id"] in sv["accepted"] and any(e["e"] == "ins" for e in sp["ev"])), None)
    if cand is not None:
        bad = {"id": "selftest", "ev": [dict(e) for e in cand["ev"]]}
        i = next(i for i, e in enumerate(bad["ev"]) if e["e"] == "ins")
        post = dict(bad["ev"][i]["post"])
        post["nodes"] = [dict(n) for n in post["nodes"]]
        post["nodes"][-1]["red"] = 1 - post["nodes"][-1]["red"]
        bad["ev"][i] = dict(bad["ev"][i], post=post)
        tv = lib.validate_traces("Trace_RBStep", [bad], "c06st", workers=1, timeout=600)
        if "selftest" in tv["accepted"]:
            raise lib.ToolError("Trace_RBStep accepted a step with a flipped colour: the step check is vacuous")
        selftest = "a flipped colour in one recorded step is rejected"
    trees = sum(1 for p in projected for e in p["ev"] if e["e"] == "tree")
    cmps = sum(1 for p in projected for e in p["ev"] if e["e"] == "cmp" and e["n"] >= 8)
    maxn = max([len(e["nodes"]) for p in projected for e in p["ev"] if e["e"] == "tree"] or [0])
    cov = {"states": max(v["states"] + sv["states"], 1), "transitions": max(v["states"] + sv["states"], 1), "traces_validated_against_impl": len(v["accepted"]) + len(sv["accepted"]),
           "evaluations": len(jobs), "distinct_nontrivial": sum(1 for p in projected if any(e["e"] == "tree" and len(e["nodes"]) >= 12 for e in p["ev"])),
           "rule": "seeded insertion/removal sequences (ascending, descending, random) over 14..60 keys with equal hashes, four hash classes in one "
                   "bin, and tree bins split by a resize; plus scheduled concurrent writers/readers on a tree bin; non-trivial = a tree bin of >= 12 "
                   "nodes was observed",
           "samples": [{"tree_nodes": [(n["k"], n["red"]) for n in projected[0]["ev"][0]["nodes"]][:12]}] if projected and projected[0]["ev"][0]["e"] == "tree" else [{"n": 0}],
           "tree_dumps_checked": trees, "lookup_counts_checked": cmps, "largest_tree_bin": maxn, "rejected": len(v["rejected"]) + len(sv["rejected"]),
           "step_conformance": {"runs": len(steps), "steps_by_kind": step_kinds, "accepted": len(sv["accepted"]), "selftest": selftest,
                                "tlc": {"states": sv["states"], "wall_s": round(sv["wall"], 1)}},
           "tlc_trace_validation": {"states": v["states"], "distinct": v["distinct"], "wall_s": round(v["wall"], 1)}}
    lib.add_spec_coverage(cov, pid, tier)
    rc = verdict.finish()
    lib.write_evidence(pid, tier, seed, "model_checking", cov, time.time() - t0, len(verdict.violations),
                       ["key Ord is total and agrees with Eq", "the inspector dumps the real links and colours", "TLC / SANY"])
    return rc
