"""C19 — optional bulk paths (serde, rayon) match sequential insertion and never panic.
All documents of <= 4 entries over 2 keys x 2 values with repetitions (plus malformed-type raw
documents), all item multisets of <= 5 over 3 keys for the parallel paths with pool sizes 1, 2, 4,
round trips of all contents, the same documents through serde_json::Value (exact size hints) and
collections of zero-sized elements (HashSet<()>, HashMap<(), ()>); outcomes validated by TLC against Trace_Bulk. A panic or crash of
the crate is data (outcome "panic")."""
import itertools
import json
import random
import time

import gen
import lib


def bulk_job(jid, how, entries, hasher, doc="", pool=1, hint="exact", pre=None):
    return {"id": jid, "kind": "bulk", "hasher": hasher,
            "bulk": {"how": how, "entries": entries, "doc": doc, "pool": pool, "hint": hint, "pre": pre or []}}


RAW_DOCS = ["{}", "[]", "{\"1\":\"x\"}", "{\"a\":1}", "{\"1\":1.5}", "{\"1\":null}", "[1,2,\"x\"]", "{\"1\":1,\"1\":\"x\"}",
            "{\"4294967296\":1}", "{\"1\":[1]}", "null", "3", "[[1,2]]", "{\"-1\":2}", "{\"1\":9223372036854775808}"]


def make_jobs(tier, seed):
    rng = random.Random(seed)
    hs = [{"kind": "default"}, gen.table_hasher({k: 5 for k in range(40)}), gen.table_hasher({})]
    jobs = []
    n = 0
    def add(how, entries, **kw):
        nonlocal n
        jobs.append(bulk_job("c19-%05d" % n, how, entries, hs[n % len(hs)], **kw))
        n += 1
    # all documents of <= 4 entries over 2 keys x 2 values
    alphabet = [[k, v] for k in (1, 2) for v in (10, 20)]
    for ln in range(0, 5):
        for es in itertools.product(alphabet, repeat=ln):
            add("serde_map", [list(e) for e in es])
            if ln <= 3:
                add("serde_set", [list(e) for e in es])
                add("roundtrip_map", [list(e) for e in es])
                add("roundtrip_set", [list(e) for e in es])
    for d in RAW_DOCS:
        add("serde_map", [], doc=d)
        add("serde_set", [], doc=d)
        add("value_map", [], doc=d)
        add("value_set", [], doc=d)
        add("serde_zset", [], doc=d)
        add("serde_zmap", [], doc=d)
    # the same small documents through serde_json::Value (exact size hints), and collections of zero-sized elements
    for ln in range(0, 4):
        for es in itertools.product(alphabet, repeat=ln):
            add("value_map", [list(e) for e in es])
            add("value_set", [list(e) for e in es])
    for ln in range(0, 4):
        add("serde_zset", [[0, 0]] * ln)
    add("serde_zmap", [])
    # item multisets of <= 5 over 3 keys for the parallel paths
    items = [[k, v] for k in (1, 2, 3) for v in (10, 20)]
    maxlen = 4 if tier == "quick" else 5
    for ln in range(0, maxlen + 1):
        for es in itertools.combinations_with_replacement(items, ln):
            for pool in (1, 2, 4):
                how = ["par_extend_map", "from_par_iter_map", "par_extend_mapref", "par_extend_set", "from_par_iter_set"][n % 5]
                add(how, [list(e) for e in es], pool=pool)
            # the same items extending a collection that already holds some of the keys
            for pre in ([[1, 7]], [[3, 8], [1, 9]]):
                add(["par_extend_map", "par_extend_mapref", "par_extend_set"][n % 3], [list(e) for e in es], pool=[1, 2, 4][n % 3], pre=pre)
    # larger random ones (resizes and tree bins inside the parallel paths)
    for i in range(60 if tier == "quick" else 1000):
        es = [[rng.randint(1, 60), rng.randint(1, 5)] for _ in range(rng.randint(20, 200))]
        add(rng.choice(["par_extend_map", "from_par_iter_map", "par_extend_set", "roundtrip_map", "roundtrip_set", "serde_map"]), es, pool=rng.choice([1, 2, 4, 8]))
    return jobs


def project(trace, job):
    b = job["bulk"]
    e = {"how": b["how"], "entries": b["entries"], "pre": b.get("pre", []), "raw": 1 if b["doc"] else 0, "outcome": trace.get("outcome", "panic"),
         "items": trace.get("items", []), "orig": trace.get("orig", []), "eq": trace.get("eq", 0), "len": trace.get("len", 0)}
    return {"id": trace["id"], "ev": [e]}


def run(pid, tier, seed, njobs=None):
    t0 = time.time()
    verdict = lib.Verdict(pid)
    jobs = make_jobs(tier, seed)
    if njobs:
        jobs = jobs[:njobs]
    res = lib.run_jobs(jobs, "c19", procs=8)
    projected, byid = [], {}
    for job, trace, crash in res:
        if crash is not None:
            trace = {"id": job["id"], "outcome": "panic", "crash": crash}
        p = project(trace, job)
        byid[p["id"]] = (job, trace, p)
        projected.append(p)
    v = lib.validate_traces("Trace_Bulk", projected, "c19", workers=6)
    for rid in v["rejected"]:
        job, trace, p = byid[rid]
        e = p["ev"][0]
        b = job["bulk"]
        dup = len(set(x[0] for x in b["entries"])) < len(b["entries"])
        sig = "%s:%s:%s" % (b["how"], e["outcome"], "dupkey" if dup else "nodup")
        verdict.violation(sig, rid, {"job": job, "result": {k: trace.get(k) for k in ("outcome", "items", "orig", "eq", "len", "crash")}},
                          "bulk job %s (%s on %s) -> %s items=%s" % (rid, b["how"], json.dumps(b["entries"] or b["doc"])[:120], e["outcome"], json.dumps(e["items"])[:120]))
    cov = {"evaluations": len(jobs), "distinct_nontrivial": sum(1 for p in projected if len(p["ev"][0]["entries"]) >= 2),
           "rule": "all documents of <= 4 entries over 2 keys x 2 values (with repetitions) for serde map/set deserialisation and round trips, "
                   "malformed-type raw documents, all item multisets of <= %d over 3 keys x 2 values for par_extend / from_par_iter with "
                   "pools of 1,2,4 threads, plus seeded larger inputs; distinct = distinct (path, input); non-trivial = input of >= 2 entries"
                   % (4 if tier == "quick" else 5),
           "samples": [projected[5]["ev"][0]] if len(projected) > 5 else [], "exhaustive": True,
           "states": max(v["states"], 1), "transitions": max(v["states"], 1), "traces_validated_against_impl": len(v["accepted"]),
           "rejected": len(v["rejected"])}
    rc = verdict.finish()
    lib.write_evidence(pid, tier, seed, "exploration", cov, time.time() - t0, len(verdict.violations),
                       ["serde_json as the document parser", "rayon thread pools of the given sizes", "TLC / SANY"])
    return rc
