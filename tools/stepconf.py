"""Step-level conformance of the real crate with Flurry.tla (Trace_Flurry): programs over the
specification's alphabet run under the scheduler with every shared-memory access recorded; TLC replays
the specification's own actions along the recorded stream (one TLC run per recorded execution)."""
import json
import os
import random
import re
import subprocess
import time
from concurrent.futures import ThreadPoolExecutor

import gen
import lib
import project

_consts = None


def consts():
    global _consts
    if _consts is None:
        _consts = json.loads(subprocess.run([lib.build_harness(), "consts"], stdout=subprocess.PIPE, text=True).stdout)
    return _consts


def fl_op(rng, keys, u, whole=0.08):
    r = rng.random()
    if r < whole:
        return {"op": rng.choice(["clear", "iter", "iter"])}
    op = rng.choice(["insert", "insert", "insert", "get", "get_key_value", "contains_key", "remove", "remove_entry",
                     "try_insert", "compute", "compute"])
    o = {"op": op, "k": rng.choice(keys)}
    if op in ("insert", "try_insert"):
        o.update(tag=rng.randint(1, 3), n=u.next(), pl=rng.randint(0, 5))
    elif op == "compute":
        o.update(f=rng.choice(["inc", "inc", "none", "const"]), n=u.next())
    else:
        o["n"] = u.next()
    return o


def flurry_job(rng, jid):
    """small tables (2..16 bins), 3..10 keys, identical / colliding / spread hashes; several resize
    generations are crossed with a handful of insertions"""
    u = gen.Uids()
    nkeys = rng.choice([3, 4, 5, 6, 8, 10])
    keys = list(range(1, nkeys + 1))
    shape = rng.choice(["id", "id", "same", "two", "rev"])
    if shape == "id":
        h = {}
    elif shape == "same":
        h = {k: 0 for k in keys}
        keys = keys[:7]          # at most 7 entries per bin: list bins only
    elif shape == "two":
        h = {k: (k % 2) * 1 + 4 * (k % 3) for k in keys}
    else:
        h = {k: 16 - k for k in keys}
    cap = rng.choice([0, 1, 1, 2, 2, 3, 5])
    prefix = [gen.ins(k, u) for k in rng.sample(keys, rng.randint(0, min(3, len(keys))))]
    nt = rng.choice([2, 2, 3, 3, 4])
    threads = [[fl_op(rng, keys, u) for _ in range(rng.randint(1, 4))] for _ in range(nt)]
    return {"id": jid, "cfg": "fl-%s-cap%d" % (shape, cap), "kind": "map", "pin": rng.random() < 0.3, "scope": rng.choice(["op", "thread"]),
            "hasher": gen.table_hasher({k: h.get(k, k) for k in range(0, nkeys + 2)}), "cap": cap, "batch": 0, "prefix": prefix, "threads": threads,
            "sched": gen.schedule(rng, nt, 400), "finals": keys, "rec": ["step", "site"], "budget": 200000}


def _tlc_one(args):
    rec, tag, i, diag = args
    tf = os.path.join(lib.WORK, "%s.fl%05d.ndjson" % (tag, i))
    with open(tf, "w") as f:
        f.write(json.dumps(rec) + "\n")
    meta = os.path.join(lib.WORK, "tlc_fl_%s_%d_%d" % (tag, os.getpid(), i))
    env = dict(os.environ)
    env["TRACE"] = tf
    env["DIAG"] = "1" if diag else "0"
    env["JAVA_TOOL_OPTIONS"] = "-Xss1g -Xmx1g -Dtlc2.tool.queue.IStateQueue=StateDeque"
    cmd = ["java", "-XX:+UseSerialGC", "-cp", lib.TLA_CP, "tlc2.TLC", "-workers", "1", "-metadir", meta, "-cleanup", "-noGenerateSpecTE",
           "-config", "Trace_Flurry.cfg", "Trace_Flurry.tla"]
    t0 = time.time()
    try:
        p = subprocess.run(cmd, cwd=lib.SPEC, env=env, stdout=subprocess.PIPE, stderr=subprocess.STDOUT, text=True, timeout=600)
        out = p.stdout
    except subprocess.TimeoutExpired:
        out = "TIMEOUT"
    subprocess.run(["rm", "-rf", meta])
    os.remove(tf)
    acc = '"ACCEPT"' in out
    inv = re.findall(r"Invariant (\w+) is violated", out)
    m = re.search(r"(\d+) states generated", out)
    res = {"id": rec["id"], "accepted": acc and not inv, "invariant": inv[0] if inv else None, "states": int(m.group(1)) if m else 0,
           "wall": time.time() - t0, "toolerr": ("TIMEOUT" in out) or (not m)}
    if diag:
        ats = re.findall(r'<<"AT", (\d+), <<(.*?)>>>>', out)
        if ats:
            best = max(ats, key=lambda x: int(x[0]))
            res["at"] = int(best[0])
            res["model"] = best[1]
        res["out"] = out[-2500:] if res["toolerr"] else ""
    return res


def validate(recs, tag, procs=10):
    """recs: list of Trace_Flurry input records. Returns list of result dicts (same order)."""
    lib.ensure_dirs()
    with ThreadPoolExecutor(max_workers=procs) as ex:
        res = list(ex.map(_tlc_one, [(r, tag, i, False) for i, r in enumerate(recs)]))
    # diagnose the rejected ones
    bad = [i for i, r in enumerate(res) if not r["accepted"]]
    if bad:
        with ThreadPoolExecutor(max_workers=procs) as ex:
            diag = list(ex.map(_tlc_one, [(recs[i], tag + "d", i, True) for i in bad[:40]]))
        for i, d in zip(bad[:40], diag):
            res[i].update({k: d[k] for k in ("at", "model", "out") if k in d})
    return res
