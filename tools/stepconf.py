"""Step-level conformance of the real crate with Flurry.tla (Trace_Flurry): programs over the
specification's alphabet run under the scheduler with every shared-memory access recorded; TLC replays
the specification's own actions along the recorded stream (one TLC run per recorded execution)."""
import json
import os
import random
import re
import subprocess
import time
from concurrent.futures import ThreadPoolExecutor

import gen
import lib
import project

_consts = None


def consts():
    global _consts
    if _consts is None:
        _consts = json.loads(subprocess.run([lib.build_harness(), "consts"], stdout=subprocess.PIPE, text=True).stdout)
    return _consts


def fl_op(rng, keys, u, whole=0.12):
    r = rng.random()
    if r < whole:
        op = rng.choice(["clear", "iter", "iter", "reserve", "reserve", "retain", "retain", "retain_force"])
        if op in ("retain", "retain_force"):
            return {"op": op, "f": rng.choice(["even", "odd", "none", "all"]), "keys": [], "n": 0}
        return {"op": op, "n": rng.choice([1, 2, 3, 5, 9, 20])} if op == "reserve" else {"op": op}
    op = rng.choice(["insert", "insert", "insert", "get", "get_key_value", "contains_key", "remove", "remove_entry",
                     "try_insert", "compute", "compute"])
    o = {"op": op, "k": rng.choice(keys)}
    if op in ("insert", "try_insert"):
        o.update(tag=rng.randint(1, 3), n=u.next(), pl=rng.randint(0, 5))
    elif op == "compute":
        o.update(f=rng.choice(["inc", "inc", "none", "const"]), n=u.next())
    else:
        o["n"] = u.next()
    return o


def join64_job(rng, jid, u):
    """A writer joins a resize from help_transfer (HLoadTi / HCasJoin). With the crate's `i = next_index` the thread that
    starts a resize leaves it at once, so a forwarding marker is visible while size_ctl is still joinable and
    transfer_index > 0 only if a second thread has joined through add_count before the first one left, in a table of >= 64
    bins (four strides of 16). Scripted: A starts 64 -> 128 and claims [48, 64); B joins through add_count and claims
    [32, 48) with i = 48; A leaves; B forwards the (empty) bin 48; C's operation on a key of bin 48 meets the marker."""
    pre = rng.sample([k for k in range(1, 64) if k != 48], 47)
    prefix = [gen.ins(k, u) for k in pre]
    a, b = rng.sample([64 + k for k in range(1, 48) if k not in (48,)], 2)
    ck = 48 + 64 * rng.randint(0, 2)
    cop = rng.choice(["insert", "insert", "try_insert", "remove", "compute"])
    c = gen.ins(ck, u) if cop == "insert" else {"op": cop, "k": ck, "n": u.next()}
    if cop == "try_insert":
        c.update(tag=1, pl=0)
    if cop == "compute":
        c.update(f="inc")
    threads = [[gen.ins(a, u)], [gen.ins(b, u)], [c] + [fl_op(rng, pre[:8] + [ck], u, whole=0) for _ in range(rng.randint(0, 2))]]
    script = [{"run": 0, "until": {"kind": "word", "w": "ti", "acc": "cas", "nth": 1}},
              {"run": 1, "until": {"kind": "word", "w": "ti", "acc": "cas", "nth": 1}},
              {"run": 0, "until": {"kind": "word", "w": "sc", "acc": "cas", "nth": 1}},
              {"run": 1, "until": {"kind": "cas", "ty": "bin", "nth": 1}}]
    if rng.random() < 0.5:
        script.append({"run": 2, "until": {"kind": "word", "w": "ti", "acc": "cas", "nth": 1}})
    return {"id": jid, "cfg": "fl-join64", "kind": "map", "pin": rng.random() < 0.3, "scope": rng.choice(["op", "thread"]),
            "hasher": gen.table_hasher({}), "cap": 42, "batch": 0, "prefix": prefix, "threads": threads, "script": script,
            "sched": gen.schedule(rng, 3, 800), "finals": sorted(pre + [a, b, ck]), "rec": ["step", "site"], "budget": 400000}


def flurry_job(rng, jid, whole=0.12):
    """small tables (2..16 bins), 3..10 keys, identical / colliding / spread hashes; several resize
    generations are crossed with a handful of insertions"""
    u = gen.Uids()
    if rng.random() < 0.05:
        return join64_job(rng, jid, u)
    if rng.random() < 0.04:
        # reserve() on a map without a table (try_presize allocates it itself) racing the lazy initialisation by inserts
        nt = rng.choice([2, 3])
        keys = list(range(1, 7))
        threads = [[{"op": "reserve", "n": rng.choice([1, 2, 3, 5, 9, 20])}] + [fl_op(rng, keys, u, whole=0.1) for _ in range(rng.randint(0, 2))]]
        for _ in range(nt - 1):
            threads.append([rng.choice([gen.ins(rng.choice(keys), u), {"op": "reserve", "n": rng.choice([1, 3, 9])}])] +
                           [fl_op(rng, keys, u, whole=0.1) for _ in range(rng.randint(0, 2))])
        return {"id": jid, "cfg": "fl-reserve-null", "kind": "map", "pin": rng.random() < 0.3, "scope": rng.choice(["op", "thread"]),
                "hasher": gen.table_hasher({}), "cap": 0, "batch": 0, "prefix": [], "threads": threads,
                "sched": gen.schedule(rng, nt, 300), "finals": keys, "rec": ["step", "site"], "budget": 200000}
    if rng.random() < 0.15:
        # 32 bins, one insertion short of the threshold: the resize to 64 has two strides of 16, so helpers
        # (add_count joiners, help_transfer joiners) claim their own ranges
        keys = list(range(1, 31))
        prefix = [gen.ins(k, u) for k in range(1, 24)]
        nt = rng.choice([2, 3, 3, 4])
        threads = []
        fresh = list(range(24, 31))
        for _ in range(nt):
            prog = []
            for _ in range(rng.randint(1, 3)):
                if fresh and rng.random() < 0.6:
                    prog.append(gen.ins(fresh.pop(), u))
                else:
                    prog.append(fl_op(rng, keys[:26], u, whole=whole / 3))
            threads.append(prog)
        return {"id": jid, "cfg": "fl-big32", "kind": "map", "pin": rng.random() < 0.3, "scope": rng.choice(["op", "thread"]),
                "hasher": gen.table_hasher({}), "cap": 21, "batch": 0, "prefix": prefix, "threads": threads,
                "sched": gen.schedule(rng, nt, 800), "finals": keys, "rec": ["step", "site"], "budget": 300000}
    nkeys = rng.choice([3, 4, 5, 6, 8, 10])
    keys = list(range(1, nkeys + 1))
    shape = rng.choice(["id", "id", "same", "two", "rev"])
    if shape == "id":
        h = {}
    elif shape == "same":
        h = {k: 0 for k in keys}
        # more than 8 entries in one bin of a table shorter than 64: put calls try_presize(2n) (modelled);
        # runs in which a bin is treeified (table of 64+) are outside the specification and are skipped
    elif shape == "two":
        h = {k: (k % 2) * 1 + 4 * (k % 3) for k in keys}
    else:
        h = {k: 16 - k for k in keys}
    cap = rng.choice([0, 1, 1, 2, 2, 3, 5])
    prefix = [gen.ins(k, u) for k in rng.sample(keys, rng.randint(0, min(3, len(keys))))]
    nt = rng.choice([2, 2, 3, 3, 4])
    threads = [[fl_op(rng, keys, u, whole=whole) for _ in range(rng.randint(1, 4))] for _ in range(nt)]
    return {"id": jid, "cfg": "fl-%s-cap%d" % (shape, cap), "kind": "map", "pin": rng.random() < 0.3, "scope": rng.choice(["op", "thread"]),
            "hasher": gen.table_hasher({k: h.get(k, k) for k in range(0, nkeys + 2)}), "cap": cap, "batch": 0, "prefix": prefix, "threads": threads,
            "sched": gen.schedule(rng, nt, 400), "finals": keys, "rec": ["step", "site"], "budget": 200000}


SET_OPS = {"try_insert": "insert", "compute": "remove", "get_key_value": "get", "contains_key": "contains", "remove_entry": "take",
           "retain_force": "retain"}


def as_set_job(job):
    """the same program on a HashSet (operations renamed to the set's API)"""
    job = json.loads(json.dumps(job))
    job["kind"] = "set"
    job["cfg"] += "-set"
    for prog in [job["prefix"]] + job["threads"]:
        for o in prog:
            o["op"] = SET_OPS.get(o["op"], o["op"])
    return job


def _tlc_one(args):
    rec, tag, i, diag = args
    tf = os.path.join(lib.WORK, "%s.p%d.fl%05d.ndjson" % (tag, os.getpid(), i))
    with open(tf, "w") as f:
        f.write(json.dumps(rec) + "\n")
    meta = os.path.join(lib.WORK, "tlc_fl_%s_%d_%d" % (tag, os.getpid(), i))
    env = dict(os.environ)
    env["TRACE"] = tf
    env["DIAG"] = "1" if diag else "0"
    env["JAVA_TOOL_OPTIONS"] = "-Xss1g -Xmx1g -Dtlc2.tool.queue.IStateQueue=StateDeque"
    cmd = ["java", "-XX:+UseSerialGC", "-cp", lib.TLA_CP, "tlc2.TLC", "-workers", "1", "-metadir", meta, "-cleanup", "-noGenerateSpecTE",
           "-config", "Trace_Flurry.cfg", "Trace_Flurry.tla"]
    t0 = time.time()
    try:
        p = subprocess.run(cmd, cwd=lib.SPEC, env=env, stdout=subprocess.PIPE, stderr=subprocess.STDOUT, text=True, timeout=600)
        out = p.stdout
    except subprocess.TimeoutExpired:
        out = "TIMEOUT"
    subprocess.run(["rm", "-rf", meta])
    os.remove(tf)
    acc = '"ACCEPT"' in out
    inv = re.findall(r"Invariant (\w+) is violated", out)
    m = re.search(r"(\d+) states generated", out)
    tk = re.search(r'<<\s*"TAKEN",\s*\{(.*?)\}\s*>>', out, re.S)
    cov = {a: 1 for a in re.findall(r'"([^"]+)"', tk.group(1))} if (acc and tk) else {}
    res = {"id": rec["id"], "cov": cov, "accepted": acc and not inv, "invariant": inv[0] if inv else None, "states": int(m.group(1)) if m else 0,
           "wall": time.time() - t0, "toolerr": ("TIMEOUT" in out) or (not m)}
    if diag:
        ats = re.findall(r'<<"AT", (\d+), <<(.*?)>>>>', out)
        if ats:
            best = max(ats, key=lambda x: int(x[0]))
            res["at"] = int(best[0])
            res["model"] = best[1]
        res["out"] = out[-2500:] if res["toolerr"] else ""
    return res


def validate(recs, tag, procs=10):
    """recs: list of Trace_Flurry input records. Returns list of result dicts (same order)."""
    lib.ensure_dirs()
    with ThreadPoolExecutor(max_workers=procs) as ex:
        res = list(ex.map(_tlc_one, [(r, tag, i, False) for i, r in enumerate(recs)]))
    # diagnose the rejected ones
    bad = [i for i, r in enumerate(res) if not r["accepted"]]
    if bad:
        with ThreadPoolExecutor(max_workers=procs) as ex:
            diag = list(ex.map(_tlc_one, [(recs[i], tag + "d", i, True) for i in bad[:40]]))
        for i, d in zip(bad[:40], diag):
            res[i].update({k: d[k] for k in ("at", "model", "out") if k in d})
    return res


def leg(pid, tier, seed, verdict, n=None, tag=None, whole=0.12):
    """Run the step-level conformance leg: returns a coverage dict; rejections become violations of `pid`."""
    rng = random.Random(seed * 7919 + 13)
    n = n or (150 if tier == "quick" else 1500)
    tag = tag or ("fl" + pid.lower())
    jobs = [flurry_job(rng, "%s-%05d" % (tag, i), whole=whole) for i in range(n)]
    jobs = [as_set_job(j) if i % 5 == 4 else j for i, j in enumerate(jobs)]
    res = lib.run_jobs(jobs, tag, procs=8, timeout=1800)
    recs, byid = [], {}
    skipped = crashed = 0
    for job, trace, crash in res:
        if crash is not None:
            crashed += 1
            verdict.violation("crash:%s:%s" % (job["cfg"], crash.get("signal") or crash["rc"]), job["id"], {"job": job, "crash": crash},
                              "the crate crashed/hung while running job %s (%s)" % (job["id"], str(crash)[:300]))
            continue
        panics = [e for e in trace["ev"] if e.get("e") == "thread_panic" or (e.get("e") == "ret" and e.get("panic"))]
        if panics or trace["outcome"] != "Done":
            # no operation of the alphabet may panic, block forever or run away
            job2 = dict(job)
            job2["sched"] = {"kind": "list", "steps": trace["schedule"]}
            verdict.violation("step:%s:%s" % ("panic" if panics else trace["outcome"], job["cfg"]), job["id"], {"job": job2, "panics": panics[:3]},
                              "job %s: %s" % (job["id"], ("an operation panicked: %s" % str(panics[0])[:200]) if panics else "the run ends %s" % trace["outcome"]))
            crashed += 1
            continue
        p = project.flurry_projection(trace, job, consts())
        if p is None:
            skipped += 1
            continue
        recs.append(p)
        byid[p["id"]] = (job, trace, p)
    out = validate(recs, tag, procs=10)
    classes = {}
    for p in recs:
        for e in p["ev"]:
            c = e["c"] + (":%d" % e["ln"] if e.get("ln") else "")
            classes[c] = classes.get(c, 0) + 1
    # binding self-test: one recorded value changed must be rejected
    selftest = "skipped"
    cand = next((p for p, r in zip(recs, out) if r["accepted"] and any(e["c"] == "add_cnt" for e in p["ev"])), None)
    if cand is not None:
        bad = json.loads(json.dumps(cand))
        bad["id"] = "selftest"
        e = next(e for e in bad["ev"] if e["c"] == "add_cnt")
        e["x"] = e["x"] + 1
        if validate([bad], tag + "st", procs=1)[0]["accepted"]:
            raise lib.ToolError("Trace_Flurry accepted a run with a changed count increment: the replay is vacuous")
        selftest = "a changed count increment in one recorded step is rejected"
    nacc = 0
    for r in out:
        if r["accepted"]:
            nacc += 1
            continue
        if r.get("toolerr") and not r.get("invariant"):
            raise lib.ToolError("TLC failed on Trace_Flurry for %s:\n%s" % (r["id"], r.get("out", "")[-2000:]))
        job, trace, p = byid[r["id"]]
        job2 = dict(job)
        job2["sched"] = {"kind": "list", "steps": trace["schedule"]}
        at = r.get("at", 0)
        ev = p["ev"][at - 1] if 0 < at <= len(p["ev"]) else None
        what = ("invariant %s of Flurry.tla fails on the replayed state" % r["invariant"]) if r.get("invariant") else \
               ("event %d of %d (%s) is not an action Flurry.tla allows thread %s to take there (model: %s)"
                % (at, len(p["ev"]), json.dumps(ev), ev and ev.get("t"), r.get("model")))
        sig = "step:%s:%s" % (r.get("invariant") or (ev or {}).get("c"), (r.get("model") or "").split(",")[2:3])
        verdict.violation(sig, r["id"], {"job": job2, "event": ev, "at": at, "model": r.get("model"), "invariant": r.get("invariant"),
                                         "events_before": p["ev"][max(0, at - 12):at]},
                          "job %s: the recorded execution is not a behaviour of Flurry.tla: %s" % (r["id"], what))
    actions = {}
    for r in out:
        for a, c in r.get("cov", {}).items():
            actions[a] = actions.get(a, 0) + c
    try:
        src = open(os.path.join(lib.SPEC, "Flurry.tla")).read()
        step = src[src.index("Step(t) =="):src.index("Next ==")]
        all_actions = re.findall(r"\\/ (\w+)\(t\)", step)
    except Exception:
        all_actions = []
    labels = {a.split(":")[0] for a in actions}
    alias = {"Call": "idle", "ClrLoadTable": "LoadTable:clear", "ItNew": "LoadTable:iter", "RsLoadCnt": "LoadTable:reserve"}
    never = sorted(a for a in all_actions if a not in labels and alias.get(a) not in actions)
    return {"runs": len(recs), "accepted": nacc, "spec_actions_replayed_in_n_runs": dict(sorted(actions.items())),
            "spec_actions_never_replayed": never, "rejected": len(out) - nacc, "skipped_out_of_alphabet": skipped, "crashed": crashed, "selftest": selftest,
            "events_replayed": sum(len(p["ev"]) for p in recs), "tlc_states": sum(r["states"] for r in out),
            "event_classes": dict(sorted(classes.items())),
            "resizes_replayed": sum(1 for p in recs for e in p["ev"] if e["c"] == "swap_table"),
            "helper_joins_replayed": sum(1 for p in recs for e in p["ev"] if e["c"] == "cas_sc" and e.get("ok") == 1 and e.get("y", 0) < -1 and e.get("x", 0) < -1 and e["y"] == e["x"] + 1)}


def run(pid, tier, seed, njobs=None):
    """internal: ./check FL - the conformance leg alone (used for seeded-change trials)"""
    t0 = time.time()
    verdict = lib.Verdict(pid)
    cov = leg(pid, tier, seed, verdict, n=njobs)
    lib.log(json.dumps({k: v for k, v in cov.items() if k != "event_classes"}))
    lib.log(json.dumps(cov["event_classes"]))
    return verdict.finish()
