"""C10 — cooperative resizing: no overlap, single publication, full completion.
Programs that put several threads on one or more resizes (tables of 2..64 bins at their threshold,
inserts / reserve / overfull bins in small tables, writers hitting forwarding markers) run on the real
crate under the scheduler; the recorded resize site events and the quiescent end state are validated
by TLC against Trace_Resize. Scripted scenarios (scenarios/*.json) replay known critical schedules.
The stamp arithmetic for all 31 legal lengths is checked on the values of the real resize_stamp."""
import glob
import json
import os
import random
import time

import gen
import lib
import project


def multigen_job(rng, jid):
    u = gen.Uids()
    shape = rng.choice(["t16", "t32", "t64", "t2", "t8"])
    if shape == "t16":
        cap, base = 10, 11
    elif shape == "t32":
        cap, base = 21, 22
    elif shape == "t64":
        cap, base = 43, 46
    elif shape == "t8":
        cap, base = 5, 5
    else:
        cap, base = 1, 1
    pre = [gen.ins(k, u) for k in range(1, base + 1)]
    nt = rng.choice([2, 3, 3, 4, 4])
    per = rng.choice([2, 4, 8, 14]) if shape != "t64" else rng.choice([2, 4, 20])
    keys = list(range(100, 100 + nt * per))
    rng.shuffle(keys)
    threads = []
    for t in range(nt):
        prog = []
        for k in keys[t * per:(t + 1) * per]:
            r = rng.random()
            if r < 0.7:
                prog.append(gen.ins(k, u))
            elif r < 0.8:
                prog.append({"op": "remove", "k": rng.randint(1, base)})
            elif r < 0.9:
                prog.append({"op": "compute", "k": rng.randint(1, base), "f": "inc", "n": u.next()})
            else:
                prog.append({"op": "reserve", "n": rng.choice([10, 40, 100])})
        threads.append(prog)
    # colliding variant: overfull bins in small tables trigger try_presize from treeify_bin
    h = gen.table_hasher({}) if rng.random() < 0.7 else gen.table_hasher({k: (k % 3) for k in range(0, 200)})
    return {"id": jid, "cfg": "multigen-" + shape, "kind": rng.choice(["map", "map", "set"]), "pin": rng.random() < 0.3,
            "scope": rng.choice(["op", "thread"]), "hasher": h, "cap": cap, "batch": rng.choice([0, 1]),
            "prefix": pre, "threads": threads, "sched": gen.schedule(rng, nt, 2000), "finals": list(range(1, base + 1)) + keys,
            "rec": ["site"], "budget": 600000}


def tree_resize_job(rng, jid):
    """A resize meets a crowded bin whose head changes under it: the resizer waits for the bin lock while a
    remover turns the tree bin back into a list (or removes the head of a list bin, or adds to the tree);
    after the wait the resizer must re-validate the head and still migrate the bin. Scripted so that the
    resizer blocks on exactly that lock, plus random schedules."""
    u = gen.Uids()
    # all keys in the low half of the split, all in the high half (the old tree bin is re-used for that half), or both halves
    split = rng.choice(["low", "high", "both", "both"])
    h = {k: 7 + (64 * (k % 2) if split == "both" else 64 if split == "high" else 0) for k in range(1, 13)}
    fillers = list(range(100, 160))
    for f in fillers:
        b = (f * 2 + 1) % 64
        h[f] = b if b != 7 else 9
    shape = rng.choice(["shrink", "shrink", "tree", "list"])
    if shape == "shrink":
        pre = [gen.ins(k, u) for k in range(1, 10)] + [{"op": "remove", "k": k} for k in (9, 8, 7, 6)]
        left = 5
    elif shape == "tree":
        pre = [gen.ins(k, u) for k in range(1, 11)]
        left = 10
    else:
        pre = [gen.ins(k, u) for k in range(1, 5)]
        left = 4
    nf = 47 - left                       # one more insertion reaches the threshold of the 64-bin table
    pre += [gen.ins(f, u) for f in fillers[:nf]]
    # several removals in a row: one of them is the one that makes the tree bin "too small" (or removes a list head)
    victims = rng.sample(range(1, min(left, 5) + 1), min(3, min(left, 5)))
    t0 = [{"op": rng.choice(["remove", "remove_entry", "compute"]), "k": v, "f": "none", "n": u.next()} for v in victims]
    if rng.random() < 0.4:
        t0.append(gen.ins(11, u))
    t1 = [gen.ins(fillers[nf], u)] + ([gen.ins(fillers[nf + 1], u)] if rng.random() < 0.5 else [])
    t2 = [rng.choice([{"op": "get", "k": rng.randint(1, 5)}, gen.ins(12, u), {"op": "remove", "k": rng.randint(1, 5)}])]
    threads = [t0, t1, t2]
    job = {"id": jid, "cfg": "treeresize-%s-%s" % (shape, split), "kind": rng.choice(["map", "map", "set"]), "pin": rng.random() < 0.3,
           "scope": rng.choice(["op", "thread"]), "hasher": gen.table_hasher(h), "cap": 42, "batch": rng.choice([0, 1]),
           "prefix": pre, "threads": threads, "sched": gen.schedule(rng, 3, 1500), "finals": list(range(1, 13)) + fillers[:nf + 2],
           "rec": ["site"], "budget": 600000}
    if job["kind"] == "set":
        job["prefix"] = [p for p in pre if p["op"] in ("insert", "remove")]
        for t in threads:
            for o in t:
                if o["op"] in ("compute", "remove_entry"):
                    o["op"] = "remove"
    if rng.random() < 0.6:
        # the remover is stopped right after it got the bin lock; the resizer runs until it blocks on that lock
        job["script"] = [{"run": 0, "until": {"kind": "lock", "nth": rng.randint(1, len(victims))}}, {"finish": 1}, {"finish": 0}, {"finish": 1}, {"finish": 2}]
    return job


def overdue_job(rng, jid):
    """An overdue resize: a reserve()-started resize is stopped in its finishing sweep; inserts pile up meanwhile (they
    can neither join nor start another resize); the resize is published with the count already above the new
    threshold; then one more operation runs - a removal, a compute on the second node of a bin, a lookup, an insert.
    Only an insert-like operation may start the next resize, and nobody may deadlock on its own bin lock."""
    u = gen.Uids()
    # 16 bins (cap 10), identity hash; keys 1..11 present; 1 and 65 (and 2, 66) share a bin in tables of 16..64 bins
    pre = [gen.ins(k, u) for k in range(1, 10)]
    extra = [65, 66] + list(range(100, 100 + rng.randint(15, 24)))
    t0 = [{"op": "reserve", "n": 1}]           # 9 + 1 entries -> requested capacity 16 > threshold 12: 16 -> 32 bins (threshold 24), once
    half = len(extra) // 2
    t1 = [gen.ins(k, u) for k in extra[:half]]
    t2 = [gen.ins(k, u) for k in extra[half:]]
    victim = rng.choice([65, 66, 1, 2, 5, 100])
    last = rng.choice([{"op": "remove", "k": victim}, {"op": "remove_entry", "k": victim}, {"op": "compute", "k": victim, "f": "none", "n": u.next()},
                       {"op": "compute", "k": victim, "f": "inc", "n": u.next()}, {"op": "retain", "f": "drop", "keys": [victim], "n": 0},
                       {"op": "retain_force", "f": "drop", "keys": [victim], "n": 0}, {"op": "get", "k": victim}, gen.ins(200, u),
                       {"op": "clear"}])
    t3 = [last, {"op": "get", "k": 3}]
    kind = rng.choice(["map", "map", "set"])
    job = {"id": jid, "cfg": "overdue", "kind": kind, "pin": rng.random() < 0.3, "scope": rng.choice(["op", "thread"]),
           "hasher": gen.table_hasher({}), "cap": 10, "batch": rng.choice([0, 1]), "prefix": pre, "threads": [t0, t1, t2, t3],
           "sched": gen.schedule(rng, 4, 1500), "finals": list(range(1, 10)) + extra + [200], "rec": ["site"], "budget": 600000,
           # the resizer is stopped after its j-th bin store (inside the finishing sweep), the inserters run to completion,
           # the resizer publishes, then the last thread runs
           "script": [{"run": 0, "until": {"kind": "store", "ty": "bin", "nth": rng.randint(2, 12)}}, {"finish": 1}, {"finish": 2},
                      {"finish": 0}, {"finish": 3}]}
    if kind == "set":
        for t in job["threads"]:
            for o in t:
                if o["op"] in ("compute", "remove_entry", "retain_force"):
                    o["op"] = {"compute": "remove", "remove_entry": "take", "retain_force": "retain"}[o["op"]]
                if o["op"] == "get":
                    o["op"] = "contains"
    return job


def stamp_check(verdict):
    """The model encodes size_ctl during a resize of n bins as RS(n) + k with RS injective in n and
    negative, k < MAXRES never carrying into the stamp. Here those facts are checked on the values of
    the real resize_stamp for all 31 legal lengths (64-bit arithmetic; TLC's integers are 32 bit)."""
    import subprocess
    c = json.loads(subprocess.run([lib.FVH, "consts"], stdout=subprocess.PIPE, text=True).stdout)
    shift, maxr, stamps = c["resize_stamp_shift"], c["max_resizers"], c.get("stamps", [])
    bad = []

    def s64(x):
        x &= (1 << 64) - 1
        return x - (1 << 64) if x >= (1 << 63) else x
    shifted = [s64(st << shift) for st in stamps]
    for k, (st, sh) in enumerate(zip(stamps, shifted)):
        if sh >= 0 or s64(sh + maxr) >= 0:
            bad.append("stamp(2^%d) << shift is not negative" % k)
        if ((sh + maxr) & ((1 << 64) - 1)) >> shift != st:
            bad.append("helper count carries into the stamp of 2^%d" % k)
    if len(set(stamps)) != len(stamps):
        bad.append("resize_stamp is not injective over the legal lengths")
    if len(stamps) != 31:
        bad.append("expected 31 stamps")
    if bad:
        verdict.violation("stamp-arithmetic", "stamps", {"consts": c, "problems": bad},
                          "resize stamp arithmetic broken for a legal table length: %s" % bad[:3])
    c["stamp_facts_hold_for_all_31_lengths"] = not bad
    return c


def run(pid, tier, seed, njobs=None):
    t0 = time.time()
    verdict = lib.Verdict(pid)
    rng = random.Random(seed)
    lib.build_harness()
    jobs = []
    jobs += lib.scenario_jobs(pid, rec=["site"])
    n = njobs or (500 if tier == "quick" else 6000)
    names = ["thr16", "thr64", "two_bins", "list8"]
    for i in range(n):
        if i % 8 == 5:
            jobs.append(tree_resize_job(rng, "c10-%05d" % i))
        elif i % 8 == 1:
            jobs.append(overdue_job(rng, "c10-%05d" % i))
        elif i % 4 == 3:
            j = gen.conc_job(rng, "c10-%05d" % i, cfgname=names[i % len(names)], rec=("site",), whole=0.2, maxops=4)
            if j["sched"].get("kind") == "os":
                j["sched"] = gen.schedule(rng, len(j["threads"]))
            jobs.append(j)
        else:
            jobs.append(multigen_job(rng, "c10-%05d" % i))
    res = lib.run_jobs(jobs, "c10", procs=8, timeout=1800)
    projected, byid, outcomes = [], {}, {}
    for job, trace, crash in res:
        if crash is not None:
            verdict.violation("crash:%s:%s" % (job.get("cfg"), crash.get("signal") or crash["rc"]), job["id"], {"job": job, "crash": crash},
                              "the crate crashed/hung while running job %s (%s)" % (job["id"], str(crash)[:300]))
            continue
        outcomes[trace["outcome"]] = outcomes.get(trace["outcome"], 0) + 1
        if trace["outcome"] != "Done":
            continue
        p = project.resize_projection(trace, job)
        byid[p["id"]] = (job, trace, p)
        projected.append(p)
    v = lib.validate_traces("Trace_Resize", projected, "c10", workers=6)
    for rid in v["rejected"]:
        job, trace, p = byid[rid]
        d = lib.diagnose_trace("Trace_Resize", p, "c10")
        job2 = dict(job)
        job2["sched"] = {"kind": "list", "steps": trace["schedule"]}
        job2.pop("script", None)
        fu = d["first_unmatched"] or {}
        verdict.violation("resize:%s:%s" % (fu.get("e"), job.get("cfg", "")[:8]), rid,
                          {"job": job2, "resize_events": p["ev"][max(0, d["matched_events"] - 10):d["matched_events"] + 3], "diagnosis": d},
                          "job %s: resize event %d of %d is not allowed by Trace_Resize: %s" % (rid, d["matched_events"] + 1, d["total_events"], fu))
    gens = [int(x) for x in __import__("re").findall(r'<<"ACCEPT", "[^"]+", (\d+)>>', v["out"])]
    joins = sum(1 for p in projected for e in p["ev"] if e["e"] == "join")
    cov = {"states": max(v["states"], 1), "transitions": max(v["states"], 1),
           "traces_validated_against_impl": len(v["accepted"]), "evaluations": len(jobs),
           "distinct_nontrivial": sum(1 for p in projected if any(e["e"] == "join" for e in p["ev"])),
           "rule": "2-4 scheduled threads inserting across one or more resize generations of tables of 2..64 bins (also reserve, removals, "
                   "overfull bins in small tables), plus scripted scenarios; non-trivial = at least one helper joined a resize",
           "samples": [[e for e in projected[-1]["ev"] if e["e"] != "mig"][:12]] if projected else [],
           "outcomes": outcomes, "helper_joins": joins, "resize_generations_validated": sum(gens), "rejected": len(v["rejected"]),
           "consts": stamp_check(verdict),
           "tlc_trace_validation": {"states": v["states"], "distinct": v["distinct"], "wall_s": round(v["wall"], 1)}}
    # step-level conformance with Flurry.tla: the specification's own actions replayed along recorded executions
    import stepconf
    sc = stepconf.leg(pid, tier, seed, verdict, n=(120 if tier == "quick" else 1200))
    cov["step_conformance"] = sc
    # the other direction: behaviours of Flurry.tla generated by TLC stepped through the crate
    import specreplay
    cov["spec_to_code_replay"] = specreplay.leg(pid, tier, seed, verdict)
    cov["states"] = cov.get("states", 0) + sc["tlc_states"]
    cov["transitions"] = cov.get("transitions", 0) + sc["tlc_states"]
    cov["traces_validated_against_impl"] = cov.get("traces_validated_against_impl", 0) + sc["accepted"]
    # bounded-exhaustive exploration of tiny programs on the real crate, every execution replayed through Flurry.tla
    import explore
    cov["bounded_exhaustive_exploration"] = explore.leg(pid, tier, seed, verdict)
    lib.add_spec_coverage(cov, pid, tier)
    rc = verdict.finish()
    lib.write_evidence(pid, tier, seed, "model_checking", cov, time.time() - t0, len(verdict.violations),
                       ["site events are emitted after the state change they report and before the thread's next yield point",
                        "scheduler-controlled runs only (event order = execution order)", "TLC / SANY"])
    return rc
