"""Orderings the control-word accesses of /repo/src really use, read from the source: for every
cfg(flurry_verif) `word_op` hook (identified by the line of its `line!()` argument) the atomic call it
announces is located in the following statements and its `Ordering::` arguments are extracted. A
change that weakens such an ordering therefore changes the input of the happens-before check (C15)."""
import os
import re

ORD = {"Relaxed": 0, "Release": 1, "Acquire": 2, "AcqRel": 3, "SeqCst": 4}
METH = {"LOAD": ["load"], "STORE": ["store"], "CAS": ["compare_exchange", "compare_exchange_weak"], "ADD": ["fetch_add", "fetch_sub"]}


def _split_args(s):
    out, depth, cur = [], 0, ""
    for ch in s:
        if ch in "([{":
            depth += 1
        elif ch in ")]}":
            depth -= 1
        if ch == "," and depth == 0:
            out.append(cur.strip())
            cur = ""
        else:
            cur += ch
    if cur.strip():
        out.append(cur.strip())
    return out


def _norm(x):
    x = re.sub(r"\s+", "", x)
    x = x.replace("asisize", "")
    while x.startswith("(") and x.endswith(")"):
        x = x[1:-1]
    return x


def table(repo="/repo"):
    tab = {}
    unresolved = []
    for fname in ("map.rs", "node.rs"):
        src = open(os.path.join(repo, "src", fname)).read()
        for m in re.finditer(r"crate::verif::word_op\(", src):
            start = m.end()
            depth, i = 1, start
            while depth and i < len(src):
                if src[i] == "(":
                    depth += 1
                elif src[i] == ")":
                    depth -= 1
                i += 1
            call = src[start:i - 1]
            args = _split_args(call)
            if len(args) < 7:
                continue
            lm = re.search(r"line!\(\)", call)
            line = src.count("\n", 0, start + lm.start()) + 1
            recv = _norm(args[0].lstrip("&"))
            acc = args[2].split("::")[-1]
            rest = src[i:i + 2500]
            # drop other hook calls from the search window
            rest = re.sub(r"#\[cfg\(flurry_verif\)\]\s*(if [^{]*\{\s*)?crate::verif::\w+\((?:[^;])*?\);\s*(\})?", "", rest)
            flat = re.sub(r"\s+", "", rest)
            found = None
            for meth in METH.get(acc, []):
                pat = re.escape(recv) + r"\." + meth + r"\("
                cands = [mm for mm in re.finditer(pat, flat)]
                if acc == "CAS":
                    want = (_norm(args[4]), _norm(args[5]))
                    for mm in cands:
                        a = _split_args(flat[mm.end():mm.end() + 300].split(")")[0] + ")") if False else None
                        seg = flat[mm.end():mm.end() + 400]
                        parts = _split_args(seg[:seg.index("Ordering::")] if "Ordering::" in seg else seg)
                        if len(parts) >= 2 and (_norm(parts[0]), _norm(parts[1])) == want:
                            found = (mm, seg)
                            break
                    if found is None and cands:
                        mm = cands[0]
                        found = (mm, flat[mm.end():mm.end() + 400])
                elif cands:
                    mm = cands[0]
                    found = (mm, flat[mm.end():mm.end() + 300])
                if found:
                    break
            if not found:
                unresolved.append((fname, line, acc))
                continue
            ords = re.findall(r"Ordering::(\w+)", found[1])
            if not ords:
                unresolved.append((fname, line, acc))
                continue
            o1 = ORD.get(ords[0], 4)
            o2 = ORD.get(ords[1], 0) if acc == "CAS" and len(ords) > 1 else 0
            tab[(fname, line)] = (o1, o2, acc)
    return tab, unresolved


if __name__ == "__main__":
    t, u = table()
    for k in sorted(t):
        print(k, t[k])
    print("unresolved:", u)
