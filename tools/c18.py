"""C18 — a panicking callback leaves the map consistent and unlocked.
Op sequences with a fault point (panic at the i-th invocation of the closure passed to
compute_if_present / retain / retain_force, or in code consuming an iterator) are replayed under
catch_unwind on list and tree bins; the outcome and every later observation are validated by TLC
against Trace_Seq (entry unchanged, earlier removals of the same retain call kept, later operations
agree with the model); afterwards two scheduled threads write the same bins (a leaked lock shows up
as a stuck run)."""
import random
import time

import c02
import gen
import lib


def make_jobs(seed, n):
    rng = random.Random(seed)
    jobs = []
    hs = dict(c02.hashers(rng))
    shapes = [("const", 3, 0), ("const", 12, 43), ("samebin", 11, 43), ("identity", 6, 0), ("default", 8, 8), ("const", 7, 2)]
    for i in range(n):
        hname, npop, cap = shapes[i % len(shapes)]
        kind = "set" if i % 5 == 4 else "map"
        u = gen.Uids()
        keys = list(range(1, 15))
        pre = [{"op": "insert", "k": k, "tag": 1, "n": u.next(), "pl": rng.randint(0, 5)} for k in keys[:npop]]
        ops = list(pre)
        nfault = 0
        for _ in range(rng.randint(3, 10)):
            o = c02.rand_op(rng, u, kind, keys, allow_fault=True)
            if o.get("panic_at"):
                nfault += 1
            ops.append(o)
        if nfault == 0:
            k = rng.choice(keys[:npop])
            if kind == "map":
                ops.append({"op": "compute", "k": k, "f": "inc", "n": u.next(), "panic_at": 1})
            else:
                ops.append({"op": "retain", "f": "none", "panic_at": rng.randint(1, 3)})
            ops.append({"op": "insert", "k": k, "tag": 2, "n": u.next(), "pl": 9})
            ops.append({"op": "remove", "k": k})
        j = c02.make_job(rng, "c18-%05d" % i, 0, kind=kind, hasher=(hname, hs[hname]), cap=cap, keys=keys, ops=ops)
        # afterwards: two threads write the same bins under the scheduler
        hot = keys[:4]
        j["threads"] = [[gen.perkey_op(rng, kind, hot, u) for _ in range(2)] for _ in range(2)]
        j["sched"] = gen.schedule(rng, 2)
        jobs.append(j)
    return jobs


def run(pid, tier, seed, njobs=None):
    t0 = time.time()
    verdict = lib.Verdict(pid)
    n = njobs or (600 if tier == "quick" else 8000)
    jobs = make_jobs(seed, n)
    res = lib.run_jobs(jobs, "c18", procs=8)
    nfaults = 0
    for job, trace, crash in res:
        if trace is None:
            continue
        nfaults += sum(1 for e in trace["ev"] if e.get("e") == "ret" and e.get("panic"))
        if trace["outcome"] != "Done":
            verdict.violation("stuck-after-panic", job["id"], {"job": job, "outcome": trace["outcome"], "tail": trace["ev"][-5:]},
                              "job %s: threads writing the bins after a panicking callback did not finish (%s)" % (job["id"], trace["outcome"]))
    return c02.finish_seq(pid, tier, seed, verdict, jobs, res, t0, sig_prefix="fault",
                          rule="op sequences with fault points (panic at the i-th callback invocation, i in 1..3) on list bins, tree bins "
                               "(12 colliding keys) and small tables, map and set, both facades; followed by two scheduled threads writing "
                               "the same bins; distinct = distinct recorded event sequence; non-trivial = structural transition happened",
                          extra_cov={"injected_panics_observed": nfaults})
