"""C09 — every guard-taking operation rejects guards of a foreign collector.
The FlurrySeq alphabet contains the foreign-guard variant of every guard-accepting public method
(directly and through `with_guard` reference wrappers); each is replayed on empty and populated
maps / sets under catch_unwind and the outcome (panic, state untouched) is validated by TLC against
Trace_Seq. Completeness of the alphabet is checked against the `pub fn`s of /repo/src."""
import os
import random
import re
import time

import c02
import gen
import lib

# public method -> operation of the alphabet that exercises it
MAP_METHODS = {"iter": "iter", "keys": "keys", "values": "values", "reserve": "reserve",
               "contains_key": "contains_key", "get": "get", "get_key_value": "get_key_value", "clear": "clear",
               "insert": "insert", "try_insert": "try_insert", "compute_if_present": "compute", "remove": "remove",
               "remove_entry": "remove_entry", "retain": "retain", "retain_force": "retain_force",
               "with_guard": "<facade>"}
SET_METHODS = {"iter": "iter", "contains": "contains", "get": "get", "is_disjoint": "is_disjoint",
               "is_subset": "is_subset", "is_superset": "is_superset", "insert": "insert", "remove": "remove",
               "take": "take", "retain": "retain", "clear": "clear", "reserve": "reserve", "with_guard": "<facade>"}
REF_EXTRA_MAP = ["len", "debug", "index"]
REF_EXTRA_SET = ["len", "debug"]


def guard_methods(path):
    src = open(path).read()
    out = []
    for m in re.finditer(r"pub fn (\w+)\s*(<[^>]*(?:<[^>]*>[^>]*)*>)?\s*\(([^)]*)\)", src):
        if "Guard<" in m.group(3) and not m.group(1).startswith("verif_"):   # verif_*: cfg(flurry_verif) inspector
            out.append(m.group(1))
    return out


def alphabet_complete():
    missing = []
    for f, table in (("map.rs", MAP_METHODS), ("set.rs", SET_METHODS)):
        for name in guard_methods(os.path.join(lib.REPO, "src", f)):
            if name not in table:
                missing.append("%s::%s" % (f, name))
    # methods of the reference wrappers (they take no guard argument but use the wrapped one)
    for f, table, extra in (("map_ref.rs", MAP_METHODS, REF_EXTRA_MAP), ("set_ref.rs", SET_METHODS, REF_EXTRA_SET)):
        src = open(os.path.join(lib.REPO, "src", f)).read()
        for m in re.finditer(r"pub fn (\w+)", src):
            n = m.group(1)
            if n in ("pin", "with_guard", "is_empty"):
                continue
            if n not in table and n not in extra:
                missing.append("%s::%s" % (f, n))
    return missing


def op_variants(kind, u, keys):
    k = keys[0]
    base = []
    if kind == "map":
        for name in ["get", "get_key_value", "contains_key", "remove", "remove_entry", "clear", "iter", "keys", "values", "len", "debug", "index"]:
            base.append({"op": name, "k": k})
        base.append({"op": "insert", "k": k, "tag": 2, "n": u.next(), "pl": 1})
        base.append({"op": "insert", "k": 9, "tag": 2, "n": u.next(), "pl": 1})
        base.append({"op": "try_insert", "k": k, "tag": 2, "n": u.next(), "pl": 1})
        base.append({"op": "try_insert", "k": 9, "tag": 2, "n": u.next(), "pl": 1})
        base.append({"op": "compute", "k": k, "f": "inc", "n": u.next()})
        base.append({"op": "compute", "k": k, "f": "none", "n": u.next()})
        base.append({"op": "reserve", "n": 100})
        base.append({"op": "retain", "f": "none"})
        base.append({"op": "retain_force", "f": "none"})
    else:
        for name in ["get", "contains", "remove", "take", "clear", "iter", "len", "debug"]:
            base.append({"op": name, "k": k})
        base.append({"op": "insert", "k": k, "tag": 2})
        base.append({"op": "insert", "k": 9, "tag": 2})
        base.append({"op": "reserve", "n": 100})
        base.append({"op": "retain", "f": "none"})
        for rel in ("is_disjoint", "is_subset", "is_superset"):
            base.append({"op": rel, "keys": []})
            base.append({"op": rel, "keys": [1, 9]})
    return base


def run(pid, tier, seed, njobs=None):
    t0 = time.time()
    missing = alphabet_complete()
    if missing:
        raise lib.ToolError("public guard-taking methods without an operation in the model alphabet: %s "
                            "(extend SeqOps.tla / c09.py)" % missing)
    verdict = lib.Verdict(pid)
    rng = random.Random(seed)
    jobs = []
    hs = c02.hashers(rng)
    n = 0
    for kind in ("map", "set"):
        for pin in (False, True):
            for populated in (0, 1, 12):
                for hname, h in (hs[0], hs[1]) if tier == "quick" else hs:
                    u = gen.Uids()
                    keys = list(range(1, 14))
                    pre = [{"op": "insert", "k": k, "tag": 1, "n": u.next(), "pl": k} for k in keys[:populated]]
                    for o in op_variants(kind, u, keys):
                        ops = pre + [dict(o, guard="foreign")] + [dict(o)]   # foreign first, then the same op with the own guard
                        j = c02.make_job(rng, "c09-%05d" % n, 0, kind=kind, hasher=(hname, h), cap=rng.choice([0, 43]), pin=pin, keys=keys + [9], ops=ops)
                        jobs.append(j)
                        n += 1
    if njobs:
        jobs = jobs[:njobs]
    res = lib.run_jobs(jobs, "c09", procs=8)
    return c02.finish_seq(pid, tier, seed, verdict, jobs, res, t0, sig_prefix="foreign", level="exploration",
                          rule="every guard-accepting public method of HashMap / HashSet (alphabet checked for completeness against "
                               "the pub fns of /repo/src) called with a guard of an unrelated collector, directly and through with_guard "
                               "reference wrappers, on empty / 1-entry / 12-entry (tree bin) collections; distinct = distinct recorded "
                               "event sequence; non-trivial = run on a populated collection",
                          extra_cov={"alphabet_methods": len(MAP_METHODS) + len(SET_METHODS), "exhaustive": True})
