#!/bin/sh
# usage: sbx.sh <slot> <patch.diff> <check args...>     e.g. sbx.sh 1 /verif/seeded/C05-m1/patch.diff C05 --n 600
# Trial of a seeded change WITHOUT touching /repo or /verif's work/evidence/replays: a scratch copy of
# /repo's HEAD gets the patch, a scratch copy of /verif (tools, specs, harness) is pointed at it, and
# ./check runs there. The registered checks never use this path (they build from /repo itself).
SLOT="$1"; P="$2"; shift 2
S=/tmp/sbx/$SLOT
mkdir -p "$S"
rm -rf "$S/repo"; mkdir "$S/repo"
(cd /repo && git archive HEAD) | tar -x -C "$S/repo" || exit 2
cp /repo/Cargo.lock "$S/repo/" 2>/dev/null
# git archive stamps files with the commit time: touch them or cargo keeps the previous trial's build
find "$S/repo" -type f -exec touch {} +
if [ "$P" != "none" ]; then
  (cd "$S/repo" && (git apply "$P" 2>/dev/null || patch -p1 --fuzz=3 -s < "$P")) || { echo "patch does not apply"; exit 2; }
fi
rsync -a --delete --exclude work --exclude replays --exclude evidence --exclude .git --exclude seeded \
      --exclude harness/target /verif/ "$S/verif/"
[ -d "$S/verif/harness/target" ] || cp -r /verif/harness/target "$S/verif/harness/target"
sed -i "s#path = \"/repo\"#path = \"$S/repo\"#" "$S/verif/harness/Cargo.toml"
cd "$S/verif" || exit 2
VERIF_SBX_REPO="$S/repo" ./check "$@" > "$S/out" 2> "$S/err"
rc=$?
echo "rc=$rc viol=$(grep -c VIOLATION "$S/out")"; grep VIOLATION "$S/out" | head -3 | cut -c1-200; grep -v "^harness built" "$S/err" | tail -4 | cut -c1-300
