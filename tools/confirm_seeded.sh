#!/bin/bash
# Confirms each seeded change in a scratch worktree of /repo (outside /repo and /verif):
#  demo fails with the change, existing suite passes with the change, demo passes without it.
# usage: confirm_seeded.sh <ID> <mN> [<name>]   (reads /tmp/mut/<ID>.out/<mN>/, writes /verif/seeded/<name or ID-mN>/)
ID=$1; M=$2
SRC=/tmp/mut/$ID.out/$M
OUT=/verif/seeded/${3:-$ID-$M}
WT=/tmp/mut/confirm
[ -f $SRC/patch.diff ] || { echo "no patch"; exit 2; }
mkdir -p $OUT
if [ ! -d $WT ]; then git -C /repo worktree add --detach $WT HEAD -q; fi
cd $WT || exit 2
git checkout -q --detach $(git -C /repo rev-parse HEAD) 2>/dev/null
git checkout -- . ; git clean -fdq tests/ 2>/dev/null
FEAT=""
grep -q -i "rayon\|serde" $SRC/demo.rs && FEAT="--features serde,rayon"
NAME=seeded_demo_${ID}_${M}
cp $SRC/demo.rs tests/$NAME.rs
# without the change
timeout 900 cargo test --offline $FEAT --test $NAME > $OUT/demo_without.log 2>&1; RC_WITHOUT=$?
# with the change
(git apply $SRC/patch.diff 2>/dev/null || patch -p1 --fuzz=3 -s < $SRC/patch.diff) || { echo "patch failed"; exit 2; }
find . -name "*.orig" -delete
git diff -- src > $OUT/patch.diff
timeout 900 cargo test --offline $FEAT --test $NAME > $OUT/demo_with.log 2>&1; RC_WITH=$?
rm tests/$NAME.rs
timeout 1500 cargo test --workspace --no-fail-fast --offline > $OUT/suite_with.log 2>&1; RC_SUITE=$?
PASSED=$(grep -E "^test result" $OUT/suite_with.log | awk '{s+=$4} END {print s}')
RUSTFLAGS="--cfg flurry_verif" cargo build --offline --target-dir target/verifcfg > /dev/null 2>&1; RC_CFG=$?
git checkout -- . ; git clean -fdq tests/
cp $SRC/demo.rs $OUT/demo.rs
python3 - <<PY
import json
m=json.load(open("$SRC/meta.json"))
m["confirmed_by_builder"]={"demo_rc_without_change": $RC_WITHOUT, "demo_rc_with_change": $RC_WITH, "suite_rc_with_change": $RC_SUITE,
   "suite_tests_passed_with_change": "$PASSED", "compiles_with_cfg_flurry_verif": $RC_CFG == 0,
   "confirmed": ($RC_WITHOUT == 0 and $RC_WITH != 0 and $RC_SUITE == 0 and $RC_CFG == 0),
   "base_commit": "$(git -C /repo rev-parse --short HEAD)"}
json.dump(m,open("$OUT/meta.json","w"),indent=1)
print("${3:-$ID-$M}", m["confirmed_by_builder"])
PY
tail -c 1500 $OUT/demo_with.log > $OUT/demo_with.tail; mv $OUT/demo_with.tail $OUT/demo_with.log
tail -c 600 $OUT/demo_without.log > $OUT/t; mv $OUT/t $OUT/demo_without.log
grep -E "^test result|FAILED" $OUT/suite_with.log > $OUT/t; mv $OUT/t $OUT/suite_with.log
