"""C05 — at quiescence lookups, iteration and len() agree and the table is well formed.
Every observation taken at a quiescent point of (a) concurrent programs run under the scheduler
(per-key and whole-map operations, resizes with helpers, tree conversions) and (b) sequential op
sequences (after every step) is validated by TLC against Trace_Quiescent (predicate QuiescentOK on
the inspector's projection of the real table plus the iter / get / len results)."""
import json
import random
import time

import c02
import gen
import lib
import project


def run(pid, tier, seed, njobs=None):
    t0 = time.time()
    verdict = lib.Verdict(pid)
    rng = random.Random(seed)
    n = njobs or (900 if tier == "quick" else 10000)
    jobs = []
    names = list(gen.configs())
    for i in range(n):
        if i % 3 == 2:
            keys = list(range(1, 14)) if i % 2 else c02.KEYS
            jobs.append(c02.make_job(rng, "c05-%05d" % i, rng.randint(5, 30), keys=keys))
        else:
            j = gen.conc_job(rng, "c05-%05d" % i, cfgname=names[i % len(names)], whole=0.35, maxops=4)
            jobs.append(j)
    res = lib.run_jobs(jobs, "c05", procs=8)
    projected, byid, outcomes = [], {}, {}
    for job, trace, crash in res:
        if crash is not None:
            verdict.violation("crash:%s" % (crash.get("signal") or crash["rc"]), job["id"], {"job": job, "crash": crash},
                              "the crate crashed/hung while running job %s (%s)" % (job["id"], crash))
            continue
        outcomes[trace["outcome"]] = outcomes.get(trace["outcome"], 0) + 1
        if trace["outcome"] != "Done":
            continue
        p = project.quiescent_projection(trace, job)
        if p["ev"]:
            byid[p["id"]] = (job, trace, p)
            projected.append(p)
    distinct = lib.dedupe(projected)
    v = lib.validate_traces("Trace_Quiescent", distinct, "c05", workers=6)
    for rid in v["rejected"]:
        job, trace, p = byid[rid]
        d = lib.diagnose_trace("Trace_Quiescent", p, "c05")
        job2 = dict(job)
        if job.get("threads") and job["sched"].get("kind") != "os":
            job2["sched"] = {"kind": "list", "steps": trace["schedule"]}
        fu = d["first_unmatched"] or {}
        verdict.violation("not-quiescent-ok:%s" % job.get("cfg"), rid, {"job": job2, "observation": fu, "diagnosis": {k: d[k] for k in ("matched_events", "total_events")}},
                          "job %s: observation %d of %d violates QuiescentOK: len=%s items=%s count=%s sc=%s next_table=%s"
                          % (rid, d["matched_events"] + 1, d["total_events"], fu.get("len"), json.dumps(fu.get("items"))[:200],
                             (fu.get("snap") or {}).get("count"), (fu.get("snap") or {}).get("sc"), (fu.get("snap") or {}).get("next_table")))
    nobs = sum(len(p["ev"]) for p in distinct)
    def nontrivial(job, trace):
        return any(e.get("e") == "site" and e.get("s") in (1, 7, 8) for e in trace["ev"]) or bool(job.get("threads"))
    nt = sum(1 for p in distinct if nontrivial(*byid[p["id"]][:2]))
    cov = {"states": max(v["states"], 1), "transitions": max(v["states"], 1),
           "traces_validated_against_impl": len(v["accepted"]), "evaluations": len(jobs), "distinct_nontrivial": nt,
           "rule": "quiescent observations (after every step of sequential op sequences; after all threads of a concurrent program "
                   "joined) of the real table; distinct = distinct observation sequence; non-trivial = concurrent program or a "
                   "sequential run with a resize / treeify / untreeify",
           "samples": [{"len": distinct[0]["ev"][-1]["len"], "items": distinct[0]["ev"][-1]["items"][:5]}] if distinct else [],
           "observations": nobs, "outcomes": outcomes, "rejected": len(v["rejected"]),
           "tlc_trace_validation": {"states": v["states"], "distinct": v["distinct"], "wall_s": round(v["wall"], 1)}}
    # step-level conformance with Flurry.tla: the specification's own actions replayed along recorded executions
    import stepconf
    sc = stepconf.leg(pid, tier, seed, verdict, n=(120 if tier == "quick" else 1200))
    cov["step_conformance"] = sc
    cov["states"] = cov.get("states", 0) + sc["tlc_states"]
    cov["transitions"] = cov.get("transitions", 0) + sc["tlc_states"]
    cov["traces_validated_against_impl"] = cov.get("traces_validated_against_impl", 0) + sc["accepted"]
    # bounded-exhaustive exploration of tiny programs on the real crate, every execution replayed through Flurry.tla
    import explore
    cov["bounded_exhaustive_exploration"] = explore.leg(pid, tier, seed, verdict)
    lib.add_spec_coverage(cov, pid, tier)
    rc = verdict.finish()
    lib.write_evidence(pid, tier, seed, "model_checking", cov, time.time() - t0, len(verdict.violations),
                       ["the inspector reads the table while no operation is in flight", "TLC / SANY"])
    return rc
