"""C07 (iterators weakly consistent across resizes) and C13 (retain / retain_force): programs with
an iterating / retaining thread and writer threads run on the real crate under the scheduler (random,
PCT, and scripted schedules that let whole - also nested - resizes complete between two next()
calls); the recorded histories (call/ret, yield, pred events) are validated by TLC against Trace_Hist."""
import json
import random
import time

import gen
import lib
import project


def nested_cfg(rng, u):
    # 4 bins (cap 2), threshold 3; entries whose hash lands in the upper quarters after two resizes
    pre = [gen.ins(k, u) for k in rng.sample([13, 14, 15, 29, 30, 7], 2)]
    return dict(cap=2, hasher=gen.table_hasher({}), prefix=pre, hot=[13, 14, 15, 29, 30, 7, 20, 21, 22, 23], universe=[7, 13, 14, 15, 29, 30] + list(range(20, 44)))


def iter_job(rng, jid, kind_of="iter", tree_only=False):
    C = gen.configs()
    C["nested"] = nested_cfg
    shapes = ["nested", "nested", "nested", "two_bins", "thr16", "same_bin_16", "list8", "tree9", "tree9", "tree_mixed", "tree_mixed", "tree_shrink", "thr64", "cap0_equal"]
    if kind_of == "retain":
        shapes += ["tree9", "tree_mixed", "tree9", "tree_mixed", "list8", "same_bin_16"]
    if tree_only:
        shapes = ["tree9", "tree_mixed", "tree9", "tree_mixed", "tree_shrink"]
    name = rng.choice(shapes)
    u = gen.Uids()
    c = C[name](rng, u)
    kind = rng.choice(["map", "map", "set"]) if kind_of == "iter" else rng.choice(["map", "map", "map", "set"])
    prefix = c["prefix"] if kind == "map" else [p for p in c["prefix"] if p["op"] in ("insert", "remove")]
    nw = rng.choice([1, 2, 2, 3])
    writers = []
    present = [p.get("k") for p in c["prefix"] if p["op"] == "insert"]
    fresh = [k for k in c["universe"] if k not in present]
    for _ in range(nw):
        prog = []
        for _ in range(rng.randint(1, 6) if kind_of == "iter" else rng.randint(3, 8)):
            r = rng.random()
            if kind_of == "retain" and r < 0.45 and present:
                # replace the value of an entry the predicate may just have inspected
                prog.append(gen.ins(rng.choice(present), u, tag=2))
            elif r < 0.55 and fresh:
                k = fresh.pop(rng.randrange(len(fresh)))
                prog.append(gen.ins(k, u))
            else:
                prog.append(gen.perkey_op(rng, kind, c["hot"] + present[:6], u))
        writers.append(prog)
    if kind_of == "iter":
        itop = {"op": rng.choice(["iter", "iter", "keys", "values"]) if kind == "map" else "iter"}
        special = [itop] + ([dict(itop)] if rng.random() < 0.3 else [])
    else:
        f = rng.choice(["none", "even", "odd", "drop", "keep", "plt"])
        op = rng.choice(["retain", "retain_force"]) if kind == "map" else "retain"
        special = [{"op": op, "f": f, "keys": rng.sample(c["hot"], rng.randint(0, len(c["hot"]))), "n": rng.randint(0, 4)}]
    threads = [special] + writers
    job = {"id": jid, "cfg": name, "kind": kind, "pin": rng.random() < 0.4, "scope": rng.choice(["thread", "op"]),
           "hasher": c["hasher"], "cap": c["cap"], "batch": rng.choice([1, 0]), "prefix": prefix, "threads": threads,
           "sched": gen.schedule(rng, len(threads), 600), "finals": c["universe"], "rec": [], "budget": 400000}
    r = rng.random()
    if r < (0.45 if kind_of == "iter" else 0.3):
        # scripted: the iterating thread is stopped at its j-th value load, the writers run to completion
        # (whole, possibly nested, resizes complete between two next() calls), then the iteration goes on
        j = rng.randint(1, 6)
        job["script"] = [{"run": 0, "until": {"kind": "load", "ty": "value", "nth": j, "before": True}}] + \
                        [{"finish": t} for t in range(1, len(threads))] + [{"finish": 0}]
    elif kind_of == "retain" and r < 0.65:
        # scripted: the retaining thread has judged an entry and is stopped just before it takes the bin lock
        # for its j-th removal; the writers (replacements of present keys among them) run to completion; then
        # the conditional removal goes on with a possibly stale observation
        j = rng.randint(1, 4)
        job["script"] = [{"run": 0, "until": {"kind": "lock", "nth": j, "before": True}}] + \
                        [{"finish": t} for t in range(1, len(threads))] + [{"finish": 0}]
    return job


def nested2_job(rng, jid):
    """An iterator that lives across two resizes and sees the middle table only partly forwarded: it is
    stopped at a value load, writer A completes the first resize, it goes on for a few more entries (now
    descending through forwarding markers), writer B completes the second resize, then it finishes."""
    u = gen.Uids()
    cap = rng.choice([2, 5])
    n = 4 if cap == 2 else 8
    universe = list(range(1, 8 * n + 1))
    rng.shuffle(universe)
    npre = n - n // 4 - 1
    pre_keys, rest = universe[:npre], universe[npre:]
    a_keys, rest = rest[:rng.randint(1, 2)], rest[2:]
    need = (2 * n - (2 * n) // 4) - (npre + len(a_keys))
    b_keys = rest[:need + rng.randint(0, 2)]
    kind = rng.choice(["map", "map", "set"])
    itop = {"op": rng.choice(["iter", "iter", "keys", "values"]) if kind == "map" else "iter"}
    threads = [[itop], [gen.ins(k, u) for k in a_keys], [gen.ins(k, u) for k in b_keys]]
    j1 = rng.randint(1, max(1, npre - 1))
    j2 = j1 + rng.randint(1, 3)
    return {"id": jid, "cfg": "nested2-%d" % n, "kind": kind, "pin": rng.random() < 0.4, "scope": rng.choice(["thread", "op"]),
            "hasher": gen.table_hasher({}), "cap": cap, "batch": rng.choice([1, 0]), "prefix": [gen.ins(k, u) for k in pre_keys],
            "threads": threads, "sched": {"kind": "rr", "q": 1}, "finals": sorted(pre_keys + a_keys + b_keys), "rec": [], "budget": 400000,
            "script": [{"run": 0, "until": {"kind": "load", "ty": "value", "nth": j1, "before": True}}, {"finish": 1},
                       {"run": 0, "until": {"kind": "load", "ty": "value", "nth": j2, "before": True}}, {"finish": 2}, {"finish": 0}]}


def run(pid, tier, seed, njobs=None, kind_of="iter"):
    t0 = time.time()
    verdict = lib.Verdict(pid)
    rng = random.Random(seed)
    n = njobs or (1000 if tier == "quick" else 12000)
    jobs = lib.scenario_jobs(pid, rec=[]) + [nested2_job(rng, "%s-%05d" % (pid.lower(), i)) if (kind_of == "iter" and i % 5 == 4)
                                             else iter_job(rng, "%s-%05d" % (pid.lower(), i), kind_of) for i in range(n)]
    res = lib.run_jobs(jobs, pid.lower(), procs=8, timeout=1800)
    projected, byid, outcomes = [], {}, {}
    for job, trace, crash in res:
        if crash is not None:
            verdict.violation("crash:%s:%s" % (job["cfg"], crash.get("signal") or crash["rc"]), job["id"], {"job": job, "crash": crash},
                              "the crate crashed/hung while running job %s (%s)" % (job["id"], str(crash)[:300]))
            continue
        outcomes[trace["outcome"]] = outcomes.get(trace["outcome"], 0) + 1
        if trace["outcome"] != "Done":
            continue
        p = project.hist_projection(trace, job)
        byid[p["id"]] = (job, trace, p)
        projected.append(p)
    distinct = lib.dedupe(projected)
    v = lib.validate_traces("Trace_Hist", distinct, pid.lower(), workers=6, timeout=1800)
    for rid in v["rejected"]:
        job, trace, p = byid[rid]
        d = lib.diagnose_trace("Trace_Hist", p, pid.lower())
        job2 = dict(job)
        job2["sched"] = {"kind": "list", "steps": trace["schedule"]}
        job2.pop("script", None)
        fu = d["first_unmatched"] or {}
        verdict.violation("%s:%s:%s" % (kind_of, fu.get("e"), job["cfg"]), rid, {"job": job2, "history": p, "diagnosis": d},
                          "history %s is not explained by Trace_Hist: matched %d of %d events, first unmatched %s"
                          % (rid, d["matched_events"], d["total_events"], json.dumps(fu)))
    def nontrivial(p):
        # an update linearizes while an iteration / retain call is open
        open_special = 0
        for e in p["ev"]:
            if e["e"] == "call" and e["op"] in ("iter", "keys", "values", "retain", "retain_force"):
                open_special += 1
            elif e["e"] == "call" and open_special and e["op"] in ("insert", "try_insert", "remove", "remove_entry", "compute"):
                return True
            elif e["e"] in ("yield", "pred") and False:
                pass
        return False
    nt = sum(1 for p in distinct if nontrivial(p))
    cov = {"states": max(v["states"], 1), "transitions": max(v["states"], 1),
           "traces_validated_against_impl": len(v["accepted"]), "evaluations": len(jobs), "distinct_nontrivial": nt,
           "rule": ("an iterating thread (iter / keys / values, map and set) " if kind_of == "iter" else "a retain / retain_force thread ")
                   + "plus 1-3 writer threads (inserts crossing one or several resizes, removals, replacements, computes) on 11 table shapes "
                   "incl. a 4-bin table that is resized 2-3 times during the call; random / PCT / sticky schedules and scripted ones that run all "
                   "writers to completion between two next() calls; non-trivial = an update call starts while the iteration / retain is open",
           "samples": [[e for e in distinct[0]["ev"] if e["e"] in ("yield", "pred")][:6]] if distinct else [],
           "outcomes": outcomes, "yields": sum(1 for p in distinct for e in p["ev"] if e["e"] == "yield"),
           "preds": sum(1 for p in distinct for e in p["ev"] if e["e"] == "pred"), "rejected": len(v["rejected"]),
           "tlc_trace_validation": {"states": v["states"], "distinct": v["distinct"], "wall_s": round(v["wall"], 1)}}
    # step-level conformance with Flurry.tla (traverser and retain's conditional removal are specification actions)
    import stepconf
    sc = stepconf.leg(pid, tier, seed, verdict, n=(100 if tier == "quick" else 1000), whole=0.45)
    cov["step_conformance"] = sc
    cov["states"] += sc["tlc_states"]
    cov["transitions"] += sc["tlc_states"]
    cov["traces_validated_against_impl"] += sc["accepted"]
    import explore
    cov["bounded_exhaustive_exploration"] = explore.leg(pid, tier, seed, verdict)
    cov["bounded_exhaustive_exploration_tree_bins"] = explore.tree_leg(pid, tier, seed, verdict)
    lib.add_spec_coverage(cov, pid, tier)
    rc = verdict.finish()
    lib.write_evidence(pid, tier, seed, "model_checking", cov, time.time() - t0, len(verdict.violations),
                       ["yield / pred events are logged by the harness closure at the moment the crate hands the entry over",
                        "value uids are unique per inserted value instance", "TLC / SANY"])
    return rc
