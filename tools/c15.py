"""C15 — updates happen-before the reads that observe them. Scheduler-controlled runs of the real crate
record every atomic operation with the ordering its call site passed, every bin-mutex lock/unlock,
park/unpark, allocation and dereference; TLC replays the stream through the vector-clock semantics of
MemModel.tla (Trace_HB) and requires (a) the initialisation of every dereferenced object to
happen-before the dereference and (b) every load of a location last written with a Relaxed store by
another thread to be ordered after that store."""
import random
import time

import c10
import c11
import gen
import lib
import ordtab
import project


REL = {"Release", "AcqRel", "SeqCst"}
ACQ = {"Acquire", "AcqRel", "SeqCst"}


def site_orderings():
    """orderings at the publishing / observing sites of the publication idioms, read from the source"""
    import os
    import re
    raw = open(os.path.join(lib.REPO, "src", "raw", "mod.rs")).read()
    mp = open(os.path.join(lib.REPO, "src", "map.rs")).read()
    out = {}
    m = re.search(r"fn cas_bin.*?compare_exchange\(\s*current,\s*new,\s*Ordering::(\w+)", raw, re.S)
    out["CAS_REL"] = (m.group(1) in REL) if m else None
    m = re.search(r"fn store_bin.*?\.store\(\s*new,\s*Ordering::(\w+)", raw, re.S)
    out["STOREBIN_REL"] = (m.group(1) in REL) if m else None
    out["BIN_ACQ"] = True     # guarded loads go through seize's protect: sequentially consistent
    m = re.search(r"stick the node here!.*?n\.next\.store\(\s*node,\s*Ordering::(\w+)", mp, re.S)
    out["APPEND_REL"] = (m.group(1) in REL) if m else None
    return out


def idiom_model(verdict):
    """MC_MemModel.tla with the orderings the code passes: exhaustive over all interleavings"""
    import os
    so = site_orderings()
    if any(v is None for v in so.values()):
        return {"skipped": "could not locate all publication sites in the source", "sites": so}
    cfg = os.path.join(lib.WORK, "MC_MemModel_code.p%d.cfg" % os.getpid())
    with open(cfg, "w") as f:
        f.write("SPECIFICATION Spec\nCONSTANTS\n" + "".join("  %s = %s\n" % (k, "TRUE" if v else "FALSE") for k, v in so.items())
                + "INVARIANT PublicationSafe\nCHECK_DEADLOCK FALSE\n")
    r = lib.run_tlc("MC_MemModel", cfg=cfg, workers=2, timeout=300)
    ok = "No error has been found" in r["out"]
    if not ok and "PublicationSafe is violated" in r["out"]:
        weak = [k for k, v in so.items() if not v]
        verdict.violation("idiom:%s" % ",".join(weak), "idioms", {"orderings_from_source": so, "tlc_counterexample": r["out"][-6000:]},
                          "with the orderings the code passes (%s) the publication idioms admit a dereference that is not ordered after "
                          "the object's initialisation (TLC counterexample in the replay file)" % so)
    elif not ok:
        raise lib.ToolError("TLC failed on MC_MemModel:\n" + r["out"][-2000:])
    return {"sites": so, "states": r["distinct"], "ok": ok}


def run(pid, tier, seed, njobs=None):
    t0 = time.time()
    verdict = lib.Verdict(pid)
    rng = random.Random(seed)
    n = njobs or (160 if tier == "quick" else 900)
    jobs = []
    names = list(gen.configs())
    for i in range(n):
        m = i % 4
        if m == 0:
            j = c11.tree_contention_job(rng, "c15-%05d" % i)
        elif m == 1:
            j = c10.multigen_job(rng, "c15-%05d" % i)
            j["threads"] = [t[:4] for t in j["threads"]]
        else:
            j = gen.conc_job(rng, "c15-%05d" % i, cfgname=names[i % len(names)], whole=0.3, maxops=3)
            if j["sched"].get("kind") == "os":
                j["sched"] = gen.schedule(rng, len(j["threads"]))
        j["rec"] = ["step"]
        jobs.append(j)
    res = lib.run_jobs(jobs, "c15", procs=8, timeout=1800)
    projected, byid = [], {}
    otab, unresolved = ordtab.table(lib.REPO)
    for job, trace, crash in res:
        if crash is not None:
            verdict.violation("crash:%s" % (crash.get("signal") or crash["rc"]), job["id"], {"job": job, "crash": crash},
                              "the crate crashed/hung while running job %s (%s)" % (job["id"], str(crash)[:200]))
            continue
        if trace["outcome"] != "Done":
            continue
        p = project.hb_projection(trace, job, otab)
        byid[p["id"]] = (job, trace, p)
        projected.append(p)
    v = lib.validate_traces("Trace_HB", projected, "c15", workers=8, timeout=3000, chunk=300)
    for rid in v["rejected"]:
        job, trace, p = byid[rid]
        d = lib.diagnose_trace("Trace_HB", p, "c15")
        fu = d["first_unmatched"] or {}
        job2 = dict(job)
        job2["sched"] = {"kind": "list", "steps": trace["schedule"]}
        job2.pop("script", None)
        verdict.violation("hb:%s:%s" % (fu.get("e"), job.get("cfg")), rid,
                          {"job": job2, "event_index": d["matched_events"] + 1, "event": fu, "preceding": p["ev"][max(0, d["matched_events"] - 12):d["matched_events"]]},
                          "job %s: event %d of %d is not ordered by happens-before: %s" % (rid, d["matched_events"] + 1, d["total_events"], fu))
    idiom = idiom_model(verdict)
    nev = sum(len(p["ev"]) for p in projected)
    cov = {"states": max(v["states"], 1), "transitions": max(v["states"], 1), "traces_validated_against_impl": len(v["accepted"]),
           "evaluations": len(jobs), "distinct_nontrivial": sum(1 for p in projected if sum(1 for e in p["ev"] if e["e"] == "deref") >= 3),
           "rule": "scheduled programs (tree-bin contention with rotations, multi-generation resizes, per-key and whole-map mixes); one trace = the "
                   "full stream of atomic operations / lock / park / alloc / cross-thread deref events; non-trivial = at least three dereferences "
                   "of objects allocated by another thread",
           "samples": [projected[0]["ev"][:8]] if projected else [], "events_replayed": nev,
           "cross_thread_derefs": sum(1 for p in projected for e in p["ev"] if e["e"] == "deref"),
           "publication_idioms_model": idiom, "control_word_sites_resolved": len(otab), "control_word_sites_unresolved": len(unresolved), "relaxed_stores": sum(1 for p in projected for e in p["ev"] if e["e"] == "st" and not e["rel"]), "rejected": len(v["rejected"]),
           "tlc_trace_validation": {"states": v["states"], "distinct": v["distinct"], "wall_s": round(v["wall"], 1)}}
    rc = verdict.finish()
    lib.write_evidence(pid, tier, seed, "model_checking", cov, time.time() - t0, len(verdict.violations),
                       ["guarded loads are sequentially consistent whatever ordering is passed (seize 0.3.3 protect)",
                        "SeqCst is treated as acquire+release (sound for publication safety)",
                        "a relaxed store clears the release sequence of its location (conservative)",
                        "the check covers the paths the explored runs take"])
    return rc
