"""Projections of harness traces to the inputs of the TLA+ trace specifications.
Pure renaming / filtering of recorded fields; no state is guessed."""

SET_RENAME = {"contains": "contains_key", "get": "get_key_value", "take": "remove_entry"}
PERKEY = {"get", "get_key_value", "contains_key", "contains", "insert", "try_insert", "remove",
          "remove_entry", "take", "compute"}


def lin_projection(trace, job, keep=None):
    """call/ret events of the per-key API -> Trace_Lin input."""
    is_set = job.get("kind") == "set"
    ev = []
    keys = set()
    threads = set()
    pending = {}
    for e in trace["ev"]:
        k = e.get("e")
        if k == "call":
            if e["op"] not in PERKEY:
                pending[e["t"]] = None
                continue
            op = e["op"]
            v = e.get("v", 0)
            if is_set:
                op = SET_RENAME.get(op, op)
                v = 1 if op in ("insert", "try_insert") else 0
            c = {"e": "call", "t": e["t"], "op": op, "k": e["k"], "tag": e.get("tag", 0), "v": v,
                 "f": e.get("f", "") or "-"}
            pending[e["t"]] = c
            keys.add(e["k"])
            threads.add(e["t"])
            ev.append(c)
        elif k == "ret":
            c = pending.get(e["t"])
            if c is None:
                continue
            ok = e.get("ok", 0)
            if is_set and c["op"] == "insert":
                ok = 1 - ok      # HashSet::insert returns "newly inserted"
            seen = e.get("seen", [])
            ev.append({"e": "ret", "t": e["t"], "ok": ok, "v": e.get("v", 0), "tag": e.get("tag", 0),
                       "ni": e.get("ni", 0), "seen": seen[0] if seen else 0, "ncb": len(seen),
                       "panic": e.get("panic", 0)})
            pending[e["t"]] = None
    return {"id": trace["id"], "set": 1 if is_set else 0, "keys": sorted(keys), "threads": sorted(threads),
            "ev": ev}


def nontrivial_lin(p):
    """A history is non-trivial if two operations of different threads on the same key overlap
    in time and at least one of them is an update."""
    open_ = {}
    for e in p["ev"]:
        if e["e"] == "call":
            for t, o in open_.items():
                if o["k"] == e["k"] and (o["op"] not in ("get", "get_key_value", "contains_key") or
                                         e["op"] not in ("get", "get_key_value", "contains_key")):
                    return True
            open_[e["t"]] = e
        else:
            open_.pop(e["t"], None)
    return False
