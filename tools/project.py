"""Projections of harness traces to the inputs of the TLA+ trace specifications.
Pure renaming / filtering of recorded fields; no state is guessed."""

SET_RENAME = {"contains": "contains_key", "get": "get_key_value", "take": "remove_entry"}
PERKEY = {"get", "get_key_value", "contains_key", "contains", "insert", "try_insert", "remove",
          "remove_entry", "take", "compute"}


def lin_projection(trace, job, keep=None):
    """call/ret events of the per-key API -> Trace_Lin input."""
    is_set = job.get("kind") == "set"
    ev = []
    keys = set()
    threads = set()
    pending = {}
    for e in trace["ev"]:
        k = e.get("e")
        if k == "call":
            if e["op"] not in PERKEY:
                pending[e["t"]] = None
                continue
            op = e["op"]
            v = e.get("v", 0)
            if is_set:
                op = SET_RENAME.get(op, op)
                v = 1 if op in ("insert", "try_insert") else 0
            c = {"e": "call", "t": e["t"], "op": op, "k": e["k"], "tag": e.get("tag", 0), "v": v,
                 "pl": e.get("pl", 0), "f": e.get("f", "") or "-"}
            pending[e["t"]] = c
            keys.add(e["k"])
            threads.add(e["t"])
            ev.append(c)
        elif k == "ret":
            c = pending.get(e["t"])
            if c is None:
                continue
            ok = e.get("ok", 0)
            if is_set and c["op"] == "insert":
                ok = 1 - ok      # HashSet::insert returns "newly inserted"
            seen = e.get("seen", [])
            ev.append({"e": "ret", "t": e["t"], "ok": ok, "v": e.get("v", 0), "tag": e.get("tag", 0),
                       "ni": e.get("ni", 0), "pl": e.get("pl", 0), "seen": seen[0] if seen else 0, "ncb": len(seen),
                       "panic": e.get("panic", 0)})
            pending[e["t"]] = None
    return {"id": trace["id"], "set": 1 if is_set else 0, "keys": sorted(keys), "threads": sorted(threads),
            "ev": ev}


def nontrivial_lin(p):
    """A history is non-trivial if two operations of different threads on the same key overlap
    in time and at least one of them is an update."""
    open_ = {}
    for e in p["ev"]:
        if e["e"] == "call":
            for t, o in open_.items():
                if o["k"] == e["k"] and (o["op"] not in ("get", "get_key_value", "contains_key") or
                                         e["op"] not in ("get", "get_key_value", "contains_key")):
                    return True
            open_[e["t"]] = e
        else:
            open_.pop(e["t"], None)
    return False


RDEF = {"ok": 0, "v": 0, "tag": 0, "ni": 0, "seen": 0, "pl": 0, "n": 0, "empty": 0, "panic": 0}


def seq_projection(trace, job, thread=None):
    """Single-threaded run -> Trace_Seq input: one `op` event per call (with its logged result and
    callback invocations) followed by the observation taken after it."""
    is_set = job.get("kind") == "set"
    ev = []
    keys = set(job.get("finals", []))
    cur = None
    for e in trace["ev"]:
        k = e.get("e")
        if thread is not None and e.get("t") != thread and k in ("call", "ret", "pred", "cb", "obs"):
            continue
        if k == "call":
            op = e["op"]
            v = e.get("v", 0)
            if is_set:
                op = SET_RENAME.get(op, op)
                if op in ("insert", "try_insert"):
                    op, v = "insert", 1
            cur = {"e": "op", "op": op, "k": e.get("k", 0), "tag": e.get("tag", 0), "v": v,
                   "pl": 0 if is_set else e.get("pl", 0), "f": e.get("f", "") or "-", "n": e.get("n", 0),
                   "keys": e.get("keys", []), "g": ("foreign_ref" if (job.get("pin") or op == "index") else "foreign") if e.get("g") == "foreign" else "own",
                   "pa": e.get("pa", 0),
                   "ncb": 0, "preds": [], "r": None}
            keys.add(e.get("k", 0))
            keys.update(e.get("keys", []))
        elif k == "pred" and cur is not None:
            cur["preds"].append([e["k"], e["v"], e["keep"]])
        elif k == "cb" and cur is not None:
            cur["ncb"] += 1
        elif k == "ret" and cur is not None:
            r = dict(RDEF)
            for f in RDEF:
                if f in e:
                    r[f] = e[f]
            seen = e.get("seen", [])
            r["seen"] = seen[0] if seen else 0
            if is_set and cur["op"] == "insert" and not r["panic"]:
                r["ok"] = 1 - r["ok"]
            r["items"] = e.get("items", [])
            r["dbg"] = e.get("dbg", [])
            cur["r"] = r
            ev.append(cur)
            cur = None
        elif k == "obs":
            o = e["o"]
            ev.append({"e": "obs", "len": o["len"], "empty": o["empty"], "items": o["items"], "gets": o["gets"]})
    keys.discard(0)
    return {"id": trace["id"], "set": 1 if is_set else 0, "keys": sorted(keys), "ev": ev}


def quiescent_projection(trace, job):
    """observations taken at quiescent points -> Trace_Quiescent input"""
    ev = []
    for e in trace["ev"]:
        if e.get("e") in ("obs", "quiescent"):
            o = e["o"]
            if o.get("snap") is None:
                continue
            ev.append({"len": o["len"], "empty": o["empty"], "items": o["items"], "gets": o["gets"], "snap": o["snap"]})
    return {"id": trace["id"], "ev": ev}


def _hash_of(job, k):
    t = job["hasher"].get("table", [])
    return t[k] if k < len(t) else k


def _tab(o):
    s = o.get("snap") or {}
    ts = s.get("tables") or []
    if not ts:
        return 0, s.get("count", 0), []
    return ts[0]["len"], s.get("count", 0), ts[0]["bins"]


def capacity_projection(trace, job):
    """per-operation table length / count before and after (from the inspector observations)
    -> Trace_Capacity input. Needs a table-driven hasher (to know the bin a key hashes to)."""
    ev = []
    prev = None
    cur = None
    fills = job.get("fills", [])     # [(index of obs before, index of obs after, c, fresh)]
    obs = []
    for e in trace["ev"]:
        k = e.get("e")
        if k == "call":
            cur = e
        elif k == "obs":
            o = e["o"]
            obs.append(o)
            if prev is not None and cur is not None:
                lenb, cntb, binsb = _tab(prev)
                lena, cnta, _ = _tab(o)
                op = cur["op"]
                kind = "insert" if op in ("insert", "try_insert") else op if op in ("reserve", "extend") else "other"
                binpop = 0
                if kind == "insert" and lenb > 0:
                    b = binsb[_hash_of(job, cur["k"]) & (lenb - 1)]
                    binpop = len(b.get("nodes", []))
                ev.append({"e": "op", "op": op, "kind": kind, "lenb": lenb, "lena": lena, "cntb": cntb, "cnta": cnta, "binpop": binpop})
            prev = o
            cur = None
    for (i0, i1, c, fresh) in fills:
        if i0 < len(obs) and i1 < len(obs):
            ev.append({"e": "fill", "c": c, "fresh": fresh, "len0": _tab(obs[i0])[0], "len1": _tab(obs[i1])[0]})
    return {"id": trace["id"], "ev": ev}


SITE = {1: "start", 2: "join", 3: "leave", 4: "mig", 5: "pub", 6: "init"}


def resize_projection(trace, job):
    """resize site events (tables renamed to 1,2,.. in order of first appearance) + quiescent end
    -> Trace_Resize input"""
    names = {}

    def tid(a):
        if a not in names:
            names[a] = len(names) + 1
        return names[a]
    ev = []
    panics = 0
    for e in trace["ev"]:
        k = e.get("e")
        if k == "site" and e["s"] in SITE:
            s = SITE[e["s"]]
            if s == "init":
                ev.append({"e": "init", "tab": tid(e["a"]), "n": e["b"]})
            elif s == "start":
                ev.append({"e": "start", "tab": tid(e["a"]), "n": e["b"]})
            elif s == "join":
                ev.append({"e": "join", "tab": tid(e["a"])})
            elif s == "leave":
                ev.append({"e": "leave", "tab": tid(e["a"]), "fin": e["b"]})
            elif s == "mig":
                ev.append({"e": "mig", "tab": tid(e["a"]), "i": e["b"]})
            elif s == "pub":
                ev.append({"e": "pub", "old": tid(e["a"]), "new": tid(e["b"]), "n": e["c"]})
        elif k == "thread_panic" or (k == "ret" and e.get("panic")):
            panics += 1
        elif k == "quiescent":
            sn = e["o"].get("snap") or {}
            tabs = sn.get("tables") or []
            ev.append({"e": "end", "len": tabs[0]["len"] if tabs else 0, "sc": sn.get("sc", 0), "nt": sn.get("next_table", 0),
                       "dropok": 1 if trace.get("end", {}).get("drop_ok") else 0, "panics": panics})
    return {"id": trace["id"], "ev": ev}


def hist_projection(trace, job):
    """call/ret of per-key ops, retain (with pred events) and iterators (with yield events)
    -> Trace_Hist input"""
    p = lin_projection(trace, job)
    is_set = job.get("kind") == "set"
    ev = []
    keys = set(p["keys"])
    threads = set(p["threads"])
    pending = {}
    for e in trace["ev"]:
        k = e.get("e")
        if k == "call":
            op = e["op"]
            v = e.get("v", 0)
            if is_set:
                op = SET_RENAME.get(op, op)
                # every HashSet::insert brings a fresh unit value instance (identified by the call's uid)
                v = (e.get("n") or 1) if op in ("insert", "try_insert") else 0
            c = {"e": "call", "t": e["t"], "op": op, "k": e.get("k", 0), "tag": e.get("tag", 0), "v": v,
                 "pl": e.get("pl", 0), "f": e.get("f", "") or "-"}
            pending[e["t"]] = c
            threads.add(e["t"])
            if op in PERKEY:
                keys.add(e["k"])
            ev.append(c)
        elif k == "ret":
            c = pending.get(e["t"])
            if c is None:
                continue
            ok = e.get("ok", 0)
            if is_set and c["op"] == "insert":
                ok = 1 - ok
            seen = e.get("seen", [])
            ev.append({"e": "ret", "t": e["t"], "ok": ok, "v": e.get("v", 0), "tag": e.get("tag", 0),
                       "ni": e.get("ni", 0), "pl": e.get("pl", 0), "seen": seen[0] if seen else 0, "ncb": len(seen),
                       "panic": e.get("panic", 0)})
            pending[e["t"]] = None
        elif k == "pred":
            ev.append({"e": "pred", "t": e["t"], "k": e["k"], "v": e["v"], "keep": e["keep"]})
            keys.add(e["k"])
        elif k == "yield":
            ev.append({"e": "yield", "t": e["t"], "k": e["k"], "tag": e["tag"], "v": e["v"]})
            if e["k"]:
                keys.add(e["k"])
    return {"id": trace["id"], "set": 1 if is_set else 0, "keys": sorted(keys), "threads": sorted(threads), "ev": ev}


def reclaim_projection(trace, job):
    """reclamation events (objects renamed 1..n) -> Trace_Reclaim input"""
    names = {}

    def oid(a):
        if a not in names:
            names[a] = len(names) + 1
        return names[a]
    ev = []
    for e in trace["ev"]:
        k = e.get("e")
        if k in ("genter", "gleave"):
            ev.append({"e": k, "g": e["g"]})
        elif k == "retire":
            ev.append({"e": "retire", "o": oid(e["o"]), "reach": e.get("reach", 0), "ty": e.get("ty", "?")})
        elif k == "free":
            ev.append({"e": "free", "o": oid(e["o"])})
        elif k == "uaf":
            ev.append({"e": "uaf", "how": e.get("how", "?")})
        elif k in ("use_after_drop", "double_drop"):
            ev.append({"e": "bad", "how": k, "obj": e.get("obj", "?")})
        elif k == "canary":
            ev.append({"e": "canary", "bad": e["bad"], "n": e["n"]})
    en = trace.get("end") or {}
    if en:
        ev.append({"e": "end", "uaf": trace.get("uaf", 0), "corrupted": en.get("corrupted", 0), "dfree": en.get("double_free", 0),
                   "lviol": en.get("ledger_violations", 0), "alive": en.get("alive", 0), "live": en.get("live_blocks", 0),
                   "dropok": 1 if en.get("drop_ok", True) else 0})
    proto = 1 if (job.get("kind") == "map" and not job.get("threads_os")) else 0
    return {"id": trace["id"], "proto": proto, "ev": ev}


def rb_projection(trace, job):
    """tree-bin dumps of every quiescent observation + comparison counts of lookups -> Trace_RB input"""
    ev = []
    last = None
    for e in trace["ev"]:
        k = e.get("e")
        if k in ("obs", "quiescent"):
            sn = e["o"].get("snap")
            if not sn:
                continue
            last = sn
            for t in sn.get("tables", []):
                for b in t["bins"]:
                    if b["kind"] == "tree":
                        ev.append({"e": "tree", "root": b["root"], "first": b["first"],
                                   "inorder": b["inorder"] if b["inorder"] is not None else [],
                                   "nodes": [{f: n[f] for f in ("n", "k", "h0", "h1", "h2", "next", "prev", "parent", "left", "right", "red")} for n in b["nodes"]]})
        elif k == "ret" and "cmps" in e and last is not None:
            ts = last.get("tables") or []
            if not ts:
                continue
            tlen = ts[0]["len"]
            for kk, cnt, found in e["cmps"]:
                b = ts[0]["bins"][_hash_of(job, kk) & (tlen - 1)]
                ev.append({"e": "cmp", "n": len(b.get("nodes", [])), "cnt": cnt, "tlen": tlen})
    return {"id": trace["id"], "ev": ev}


ACQ = {2, 3, 4}
REL = {1, 3, 4}


def hb_projection(trace, job, ordtab=None):
    """atomic-operation stream -> Trace_HB input. Locations, mutexes and objects are renamed to small
    numbers. Effective orderings: loads through reclaim::Atomic::load are sequentially consistent
    (seize's protect) whatever ordering is passed; Atomic::clone is a Relaxed load."""
    loc, obj = {}, {}

    def lid(a):
        if a not in loc:
            loc[a] = len(loc) + 1
        return loc[a]

    def oid(a):
        if a not in obj:
            obj[a] = len(obj) + 1
        return obj[a]
    nthreads = len(job.get("threads", []))
    main = nthreads
    threads = list(range(nthreads + 1))
    ev = []
    allocated_by = {}
    forked = False
    joined = False
    for e in trace["ev"]:
        k = e.get("e")
        t = e.get("t")
        if k == "prefix_end":
            ev.append({"e": "fork", "t": main, "a": 0, "acq": 0, "rel": 0})
            forked = True
            continue
        if forked and not joined and t == main and k in ("step", "alloc", "deref", "call"):
            ev.append({"e": "join", "t": main, "a": 0, "acq": 0, "rel": 0})
            joined = True
        if k == "alloc":
            allocated_by[e["o"]] = t
            ev.append({"e": "alloc", "t": t, "a": oid(e["o"]), "acq": 0, "rel": 0})
        elif k == "deref":
            o = e["o"]
            if o in allocated_by and allocated_by[o] != t:
                ev.append({"e": "deref", "t": t, "a": oid(o), "acq": 0, "rel": 0})
        elif k == "unlock":
            ev.append({"e": "unlock", "t": t, "a": lid(("m", e["a"])), "acq": 0, "rel": 0})
        elif k == "step":
            kk = e["k"]
            if kk == "load":
                ev.append({"e": "ld", "t": t, "a": lid(e["a"]), "acq": 1, "rel": 0})
            elif kk == "clone":
                ev.append({"e": "ld", "t": t, "a": lid(e["a"]), "acq": 0, "rel": 0})
            elif kk == "store":
                ev.append({"e": "st", "t": t, "a": lid(e["a"]), "acq": 0, "rel": 1 if e["ord"] in REL else 0})
            elif kk == "swap":
                ev.append({"e": "rmw", "t": t, "a": lid(e["a"]), "acq": 1 if e["ord"] in ACQ else 0, "rel": 1 if e["ord"] in REL else 0})
            elif kk == "cas":
                if e["ok"]:
                    ev.append({"e": "rmw", "t": t, "a": lid(e["a"]), "acq": 1 if e["ord"] in ACQ else 0, "rel": 1 if e["ord"] in REL else 0})
                else:
                    ev.append({"e": "ld", "t": t, "a": lid(e["a"]), "acq": 1 if e["ordf"] in ACQ else 0, "rel": 0})
            elif kk == "word":
                acc = e["acc"]
                if ordtab is not None:
                    # the ordering the access really uses, read from the source at the hook's line
                    real = ordtab.get(("node.rs" if e["w"] == "ls" else "map.rs", e.get("ln", 0)))
                    if real is not None:
                        e = dict(e, ord=real[0], ordf=real[1])
                if acc == "load":
                    ev.append({"e": "ld", "t": t, "a": lid(e["a"]), "acq": 1 if e["ord"] in ACQ else 0, "rel": 0})
                elif acc == "store":
                    ev.append({"e": "st", "t": t, "a": lid(e["a"]), "acq": 0, "rel": 1 if e["ord"] in REL else 0})
                elif acc == "cas" and not e["ok"]:
                    ev.append({"e": "ld", "t": t, "a": lid(e["a"]), "acq": 1 if e.get("ordf", 0) in ACQ else 0, "rel": 0})
                else:
                    ev.append({"e": "rmw", "t": t, "a": lid(e["a"]), "acq": 1 if e["ord"] in ACQ else 0, "rel": 1 if e["ord"] in REL else 0})
            elif kk == "lock":
                ev.append({"e": "lock", "t": t, "a": lid(("m", e["a"])), "acq": 0, "rel": 0})
            elif kk == "park":
                ev.append({"e": "park", "t": t, "a": 0, "acq": 0, "rel": 0})
            elif kk == "unpark" and e.get("u", -1) >= 0:
                ev.append({"e": "unpark", "t": t, "a": e["u"], "acq": 0, "rel": 0})
    return {"id": trace["id"], "threads": threads, "ev": ev}


def rbstep_projection(trace, job):
    """Sequential runs with a snapshot after every operation -> Trace_RBStep input: for every operation on
    a key whose bin is (or becomes, or stops being) a tree bin, the bin's structure before and after, with
    nodes renamed to the rank of their key in (hash, key) order, so that the transcribed algorithms
    (TreeBinOps.tla) can be run from the `pre` structure and compared with `post` node for node.
      {e:"ins"|"rem"|"same", k, pre:TREE, post:TREE|{list:[..]}}   operations on a tree bin
      {e:"build", lst:[..], post:TREE}                              treeify_bin of a list bin (+ new key at the tail)
      {e:"split", pre:TREE, lo:[..], hi:[..], plo:BIN, phi:BIN}      a resize splits the tree bin
    TREE = {root, first, nodes:[{n,parent,left,right,red,prev,next}]}, BIN = TREE | {list:[..]} | {empty:1}"""
    if job.get("threads"):
        return {"id": trace["id"], "ev": []}
    keys = sorted(set(job.get("finals", [])) | {o.get("k") for o in job.get("prefix", []) if isinstance(o.get("k"), int)})
    order = sorted(keys, key=lambda k: (_hash_of(job, k), k))
    rank = {k: i + 1 for i, k in enumerate(order)}
    if len(rank) > 128:
        return {"id": trace["id"], "ev": []}

    def tree(b):
        byn = {n["n"]: rank.get(n["k"], 0) for n in b["nodes"]}
        byn[0] = 0
        if any(n["hok"] != 1 for n in b["nodes"]) or any(v == 0 for kk, v in byn.items() if kk != 0):
            return None
        g = lambda x: byn.get(x, 0)
        return {"root": g(b["root"]), "first": g(b["first"]),
                "nodes": [{"n": g(n["n"]), "parent": g(n["parent"]), "left": g(n["left"]), "right": g(n["right"]),
                           "red": n["red"], "prev": g(n["prev"]), "next": g(n["next"])} for n in b["nodes"]]}

    def binrep(b):
        if b["kind"] == "tree":
            return tree(b)
        if b["kind"] == "list":
            if any(n["k"] not in rank for n in b["nodes"]):
                return None
            return {"list": [rank[n["k"]] for n in b["nodes"]]}
        if b["kind"] == "empty":
            return {"empty": 1}
        return None

    ev = []
    prev = None
    op = None
    for e in trace["ev"]:
        kind = e.get("e")
        if kind == "call":
            op = e
        elif kind == "obs":
            sn = e["o"].get("snap")
            if prev is not None and op is not None and sn and len(prev.get("tables", [])) == 1 and len(sn.get("tables", [])) == 1:
                t0, t1 = prev["tables"][0], sn["tables"][0]
                k = op.get("k")
                if t0["len"] == t1["len"] and isinstance(k, int) and k in rank and op.get("op") not in ("probe_cmp",):
                    i = _hash_of(job, k) & (t0["len"] - 1)
                    b0, b1 = t0["bins"][i], t1["bins"][i]
                    in0 = any(n["k"] == k for n in b0.get("nodes", []))
                    in1 = any(n["k"] == k for n in b1.get("nodes", []))
                    if b0["kind"] == "tree":
                        pre, post = tree(b0), binrep(b1)
                        if pre is not None and post is not None:
                            what = "ins" if (not in0 and in1) else "rem" if (in0 and not in1) else "same"
                            ev.append({"e": what, "k": rank[k], "pre": pre, "post": post})
                    elif b0["kind"] == "list" and b1["kind"] == "tree" and not in0 and in1:
                        post = tree(b1)
                        if post is not None and all(n["k"] in rank for n in b0["nodes"]):
                            ev.append({"e": "build", "lst": [rank[n["k"]] for n in b0["nodes"]] + [rank[k]], "post": post})
                elif t1["len"] == 2 * t0["len"]:
                    # the operation made the table double: every tree bin of the old table was split
                    n0 = t0["len"]
                    kk = op.get("k")
                    for i, b0 in enumerate(t0["bins"]):
                        if b0["kind"] != "tree":
                            continue
                        if isinstance(kk, int) and (_hash_of(job, kk) & (n0 - 1)) == i:
                            continue    # the bin the operation itself changed first
                        pre = tree(b0)
                        plo, phi = binrep(t1["bins"][i]), binrep(t1["bins"][i + n0])
                        if pre is None or plo is None or phi is None:
                            continue
                        inv = {rank[n["k"]]: n["k"] for n in b0["nodes"]}
                        lst = [rank[n["k"]] for n in b0["nodes"]]
                        lo = [r for r in lst if (_hash_of(job, inv[r]) & n0) == 0]
                        hi = [r for r in lst if (_hash_of(job, inv[r]) & n0) != 0]
                        ev.append({"e": "split", "pre": pre, "lo": lo, "hi": hi, "plo": plo, "phi": phi})
            if sn:
                prev = sn
            op = None
    return {"id": trace["id"], "ev": ev}


# ------------------------------------------------------------------------------------------
# step-level conformance with Flurry.tla (Trace_Flurry)

FL_OPS = {"insert", "get", "get_key_value", "contains_key", "remove", "remove_entry", "try_insert", "compute", "clear", "iter", "reserve",
          "retain", "retain_force"}


def flurry_projection(trace, job, consts):
    """The recorded stream of shared-memory accesses -> Trace_Flurry input (see the module's header).
    Returns None when the run leaves the alphabet of Flurry.tla (sets, tree bins, other operations)."""
    is_set = job.get("kind") == "set"       # HashSet<T> = HashMap<T, ()>: the same protocol under renamed operations
    nth = len(job.get("threads", []))
    main = nth
    stamps = consts["stamps"]
    shift = consts["resize_stamp_shift"]

    def msc(x):
        """real size_ctl value -> the model's encoding"""
        if x >= -1:
            return x
        u = x + (1 << 64)
        st, k = u >> shift, u & ((1 << shift) - 1)
        if st in stamps:
            return -(1000 * (1 << stamps.index(st))) + k
        return -999999

    evs = trace["ev"]
    start = next((i for i, e in enumerate(evs) if e.get("e") == "layout"), None)
    if start is None:
        return None
    lay = evs[start]
    a_table, a_next = lay["table"], lay["next_table"]
    tables = set()          # addresses of Table structs seen
    blocks = []             # (start, size) of the objects flurry allocated through Shared::boxed
    for e in evs[:start]:
        if e.get("e") == "alloc":
            blocks.append((e["o"], e.get("sz", 0)))
        elif e.get("e") == "site" and e["s"] in (1, 5, 6):
            tables.add(e["a"])

    def block_of(a):
        for o, sz in blocks:
            if o <= a < o + sz:
                return (o, sz)
        return None

    def is_table_block(b):
        return any(b[0] <= tb < b[0] + b[1] for tb in tables)

    prog = {t: [] for t in range(nth + 1)}
    out = []

    slot_ids, tnt_ids = {}, {}

    def sid(m, a):
        if a not in m:
            m[a] = len(m) + 1
        return m[a]

    cur_g = {}              # t -> position in the schedule of the thread's last granted step

    def emit(t, ev):
        last_step[t] = len(out)
        if t in cur_g:
            ev["g"] = cur_g[t]
        out.append(ev)

    cur_op = {}             # t -> current call (None = outside the alphabet: its events are dropped)
    incrit = {}             # t -> inside a bin critical section
    last_step = {}          # t -> index in `out` of the thread's last recorded access
    for e in evs[start + 1:]:
        k = e.get("e")
        if k == "quiescent":
            break
        t = e.get("t")
        if k == "step" and "g" in e:
            cur_g[t] = e["g"]
        if k == "alloc":
            blocks.append((e["o"], e.get("sz", 0)))
            continue
        if k == "site":
            if e["s"] in (7, 8):
                return None              # a bin was treeified / untreeified: tree bins are outside Flurry.tla
            if e["s"] in (1, 5, 6):      # start / pub / init carry table addresses
                tables.add(e["a"])
                if e["s"] == 5:
                    tables.add(e["b"])
            continue
        if k == "call":
            if is_set:
                e = dict(e, op=SET_RENAME.get(e["op"], e["op"]))
            if e["op"] not in FL_OPS:
                if t == main and e["op"] in ("len", "is_empty", "obs", "keys", "values", "debug", "clone_eq", "eq_other", "probe_cmp"):
                    cur_op[t] = None
                    continue
                return None
            f = e.get("f", "") or "-"
            if e["op"] == "compute" and f not in ("inc", "none", "const"):
                return None
            o = {"op": e["op"], "k": e.get("k", 0) or 1, "tag": e.get("tag", 0), "v": e.get("v", 0), "pl": e.get("pl", 0), "f": f}
            if e["op"] in ("retain", "retain_force"):
                if f not in ("all", "none", "even", "odd"):
                    return None
            if e["op"] in ("clear", "iter", "reserve", "retain", "retain_force"):
                o["k"] = 1
            if e["op"] == "reserve":
                o["pl"] = e.get("n", 0)
            prog[t].append(o)
            cur_op[t] = o
            out.append({"t": t + 1, "c": "call", "op": o["op"], "k": o["k"], "g": cur_g.get(t, 0)})
            continue
        if k == "ret":
            if cur_op.get(t) is None:
                continue
            if e.get("panic"):
                return None
            seen = e.get("seen", [])
            if is_set and cur_op[t]["op"] == "insert":
                e = dict(e, ok=1 - e.get("ok", 0))       # HashSet::insert answers "newly inserted"
            out.append({"t": t + 1, "c": "ret", "ok": e.get("ok", 0), "v": e.get("v", 0), "tag": e.get("tag", 0), "ni": e.get("ni", 0),
                        "seen": seen[0] if seen else 0, "pl": e.get("pl", 0)})
            cur_op[t] = None
            continue
        if k == "thread_panic":
            return None
        if k == "unlock":
            # the release is noticed at the thread's next hook; it happened right after the thread's last
            # recorded access (no other thread ran in between): put it there
            if incrit.get(t):
                incrit[t] = False
                j = last_step.get(t)
                if j is not None:
                    out.insert(j + 1, {"t": t + 1, "c": "unlock", "g": cur_g.get(t, 0)})
                    for u in last_step:
                        if last_step[u] > j:
                            last_step[u] += 1
                    last_step[t] = j + 1
            continue
        if k != "step" or cur_op.get(t) is None:
            continue
        op = cur_op[t]["op"]
        sk = e.get("k")
        if sk == "lock":
            incrit[t] = True
            emit(t, {"t": t + 1, "c": "lock"})
            continue
        if sk == "spin":
            emit(t, {"t": t + 1, "c": "spin"})
            continue
        if sk == "word":
            w, acc = e["w"], e["acc"]
            if w == "ls":
                return None          # tree-bin lock word: outside the alphabet
            base = {"t": t + 1, "ln": e.get("ln", 0)}
            if w == "sc":
                c = {"load": "ld_sc", "cas": "cas_sc", "store": "st_sc"}.get(acc)
                base.update(c=c, cur=msc(e["cur"]), x=msc(e["x"]), y=msc(e["y"]), ok=1 if e.get("ok") else 0)
            elif w == "ti":
                c = {"load": "ld_ti", "cas": "cas_ti", "store": "st_ti"}.get(acc)
                base.update(c=c, cur=e["cur"], x=e["x"], y=e["y"], ok=1 if e.get("ok") else 0)
            elif w == "cnt":
                c = {"load": "ld_cnt", "add": "add_cnt"}.get(acc)
                base.update(c=c, cur=e["cur"], x=e["x"])
            else:
                return None
            if c is None:
                return None
            emit(t, base)
            continue
        ty, a = e.get("ty"), e.get("a", 0)
        crit = incrit.get(t, False)
        if sk == "clone":
            continue
        blk = block_of(a)
        if ty == "table":
            if a == a_table:
                c = {"load": "ld_table", "store": "st_table", "swap": "swap_table"}.get(sk)
            elif a == a_next:
                c = {"load": "ld_nt", "store": "st_nt", "swap": "swap_nt"}.get(sk)
            else:
                # a Table's own next_table field: set by get_moved (folded into the forwarding store), read by
                # help_transfer / Table::find / the traverser
                if sk != "load" or crit:
                    if crit:
                        last_step[t] = len(out) - 1
                    continue
                c = "ld_tnt"
            if c is None:
                return None
            if "new" in e and e["new"]:
                tables.add(e["new"])
            ev2 = {"t": t + 1, "c": c, "nil": 1 if e.get("cur", 0) == 0 else 0}
            if c == "ld_tnt":
                ev2["s"] = sid(tnt_ids, a)
            emit(t, ev2)
            continue
        if ty == "bin":
            if blk is not None and is_table_block(blk):
                if crit:
                    last_step[t] = len(out) - 1
                continue             # the table's `moved` entry (get_moved)
            node_field = blk is not None           # a node's next pointer; otherwise a slot of a bin array
            if sk == "load":
                if crit:
                    last_step[t] = len(out) - 1
                    continue         # reads under the bin lock are part of the critical section's action
                if op == "clear" and node_field:
                    continue         # clear walks the list it has just unlinked (retiring the nodes)
                ev2 = {"t": t + 1, "c": "ld_n" if node_field else "ld_b", "nil": 1 if e.get("cur", 0) == 0 else 0}
                if not node_field:
                    ev2["s"] = sid(slot_ids, a)
                emit(t, ev2)
            elif sk == "cas":
                emit(t, {"t": t + 1, "c": "cas_b", "ok": 1 if e.get("ok") else 0, "s": sid(slot_ids, a)})
            elif sk in ("store", "swap"):
                ev2 = {"t": t + 1, "c": "st_n" if node_field else "st_b", "nil": 1 if e.get("new", 0) == 0 else 0}
                if not node_field:
                    ev2["s"] = sid(slot_ids, a)
                emit(t, ev2)
            continue
        if ty == "value":
            if sk == "load":
                if crit or op == "clear":
                    if crit:
                        last_step[t] = len(out) - 1
                    continue
                emit(t, {"t": t + 1, "c": "ld_val"})
            elif sk in ("swap", "store"):
                emit(t, {"t": t + 1, "c": "swap_val"})
            continue
        # other typed accesses (tree nodes, waiters ...): outside the alphabet
        return None
    table = job["hasher"].get("table") if job["hasher"].get("kind") == "table" else None
    if table is None:
        return None
    keys = sorted({o["k"] for t in prog for o in prog[t]})
    maxk = max(keys) if keys else 1
    hashof = [(table[k] if k < len(table) else k) for k in range(1, maxk + 1)]
    # TLC's integers are 32 bit: a value that does not fit (a poisoned read, a corrupted word) cannot be one the
    # specification allows; it is replaced by a marker that matches nothing instead of crashing the parser
    for e in out:
        for f, x in list(e.items()):
            if isinstance(x, int) and not isinstance(x, bool) and abs(x) >= (1 << 31):
                e[f] = -777777
    for t in prog:
        for o in prog[t]:
            for f, x in list(o.items()):
                if isinstance(x, int) and not isinstance(x, bool) and abs(x) >= (1 << 31):
                    o[f] = -777777
    return {"id": trace["id"], "nthreads": nth + 1, "prog": [prog[t] for t in range(nth + 1)], "hashof": hashof, "initkeys": [],
            "set": 1 if is_set else 0, "n0": lay["n0"], "nslots": max(len(slot_ids), 1), "ntnts": max(len(tnt_ids), 1), "ev": out,
            "maxnodes": max(80, 3 * sum(1 for t in prog for o in prog[t] if o.get("op") in ("insert", "try_insert")) + 20)}


def treelock_projection(trace, job):
    """accesses to the lock word / waiter slot of every tree bin + park / unpark -> Trace_TreeLock input"""
    blocks = []
    bins, handles = {}, {}
    ev = []
    nth = len(job.get("threads", [])) + 1

    def block_of(a):
        for o, sz in blocks:
            if o <= a < o + sz:
                return o
        return a

    def bid(a):
        k = block_of(a)
        if k not in bins:
            bins[k] = len(bins) + 1
        return bins[k]
    for e in trace["ev"]:
        k = e.get("e")
        if k == "alloc":
            blocks.append((e["o"], e.get("sz", 0)))
            continue
        if k == "quiescent":
            break
        if k != "step":
            continue
        t = e.get("t", 0) + 1
        sk = e.get("k")
        if sk == "word" and e.get("w") == "ls":
            b = bid(e["a"])
            acc = e["acc"]
            if acc == "load":
                ev.append({"e": "ld", "t": t, "b": b, "cur": e["cur"]})
            elif acc == "cas":
                ev.append({"e": "cas", "t": t, "b": b, "x": e["x"], "y": e["y"], "ok": 1 if e.get("ok") else 0, "cur": e["cur"]})
            elif acc == "store":
                ev.append({"e": "st", "t": t, "b": b, "x": e["x"]})
            elif acc == "add":
                ev.append({"e": "add", "t": t, "b": b, "x": e["x"], "cur": e["cur"]})
        elif e.get("ty") == "thread":
            b = bid(e["a"])
            if sk == "swap":
                new = e.get("new", 0)
                if new:
                    handles[new] = t
                ev.append({"e": "wswap", "t": t, "b": b, "new": t if new else 0})
            elif sk == "load":
                cur = e.get("cur", 0)
                ev.append({"e": "wload", "t": t, "b": b, "cur": handles.get(cur, 99) if cur else 0})
        elif sk == "park":
            ev.append({"e": "park", "t": t})
        elif sk == "unpark":
            ev.append({"e": "unpark", "t": t, "u": e.get("u", -1) + 1})
    return {"id": trace["id"], "nbins": max(len(bins), 1), "nthreads": nth, "finished": 1 if trace.get("outcome") == "Done" else 0, "ev": ev}


def growth_start_projection(trace, job):
    """(concurrent runs) which public operation a thread was executing when it started a resize -> `start` events
    for Trace_Capacity"""
    cur = {}
    ev = []
    is_set = job.get("kind") == "set"
    for e in trace["ev"]:
        k = e.get("e")
        if k == "call":
            cur[e["t"]] = SET_RENAME.get(e["op"], e["op"]) if is_set else e["op"]
        elif k == "ret":
            cur.pop(e["t"], None)
        elif k == "site" and e.get("s") == 1:
            op = cur.get(e["t"])
            if op is not None:
                ev.append({"e": "start", "op": "insert" if (is_set and op in ("insert", "try_insert")) else op, "t": e["t"]})
    return {"id": trace["id"], "ev": ev}
