"""Projections of harness traces to the inputs of the TLA+ trace specifications.
Pure renaming / filtering of recorded fields; no state is guessed."""

SET_RENAME = {"contains": "contains_key", "get": "get_key_value", "take": "remove_entry"}
PERKEY = {"get", "get_key_value", "contains_key", "contains", "insert", "try_insert", "remove",
          "remove_entry", "take", "compute"}


def lin_projection(trace, job, keep=None):
    """call/ret events of the per-key API -> Trace_Lin input."""
    is_set = job.get("kind") == "set"
    ev = []
    keys = set()
    threads = set()
    pending = {}
    for e in trace["ev"]:
        k = e.get("e")
        if k == "call":
            if e["op"] not in PERKEY:
                pending[e["t"]] = None
                continue
            op = e["op"]
            v = e.get("v", 0)
            if is_set:
                op = SET_RENAME.get(op, op)
                v = 1 if op in ("insert", "try_insert") else 0
            c = {"e": "call", "t": e["t"], "op": op, "k": e["k"], "tag": e.get("tag", 0), "v": v,
                 "pl": e.get("pl", 0), "f": e.get("f", "") or "-"}
            pending[e["t"]] = c
            keys.add(e["k"])
            threads.add(e["t"])
            ev.append(c)
        elif k == "ret":
            c = pending.get(e["t"])
            if c is None:
                continue
            ok = e.get("ok", 0)
            if is_set and c["op"] == "insert":
                ok = 1 - ok      # HashSet::insert returns "newly inserted"
            seen = e.get("seen", [])
            ev.append({"e": "ret", "t": e["t"], "ok": ok, "v": e.get("v", 0), "tag": e.get("tag", 0),
                       "ni": e.get("ni", 0), "pl": e.get("pl", 0), "seen": seen[0] if seen else 0, "ncb": len(seen),
                       "panic": e.get("panic", 0)})
            pending[e["t"]] = None
    return {"id": trace["id"], "set": 1 if is_set else 0, "keys": sorted(keys), "threads": sorted(threads),
            "ev": ev}


def nontrivial_lin(p):
    """A history is non-trivial if two operations of different threads on the same key overlap
    in time and at least one of them is an update."""
    open_ = {}
    for e in p["ev"]:
        if e["e"] == "call":
            for t, o in open_.items():
                if o["k"] == e["k"] and (o["op"] not in ("get", "get_key_value", "contains_key") or
                                         e["op"] not in ("get", "get_key_value", "contains_key")):
                    return True
            open_[e["t"]] = e
        else:
            open_.pop(e["t"], None)
    return False


RDEF = {"ok": 0, "v": 0, "tag": 0, "ni": 0, "seen": 0, "pl": 0, "n": 0, "empty": 0, "panic": 0}


def seq_projection(trace, job, thread=None):
    """Single-threaded run -> Trace_Seq input: one `op` event per call (with its logged result and
    callback invocations) followed by the observation taken after it."""
    is_set = job.get("kind") == "set"
    ev = []
    keys = set(job.get("finals", []))
    cur = None
    for e in trace["ev"]:
        k = e.get("e")
        if thread is not None and e.get("t") != thread and k in ("call", "ret", "pred", "cb", "obs"):
            continue
        if k == "call":
            op = e["op"]
            v = e.get("v", 0)
            if is_set:
                op = SET_RENAME.get(op, op)
                if op in ("insert", "try_insert"):
                    op, v = "insert", 1
            cur = {"e": "op", "op": op, "k": e.get("k", 0), "tag": e.get("tag", 0), "v": v,
                   "pl": 0 if is_set else e.get("pl", 0), "f": e.get("f", "") or "-", "n": e.get("n", 0),
                   "keys": e.get("keys", []), "g": ("foreign_ref" if (job.get("pin") or op == "index") else "foreign") if e.get("g") == "foreign" else "own",
                   "pa": e.get("pa", 0),
                   "ncb": 0, "preds": [], "r": None}
            keys.add(e.get("k", 0))
            keys.update(e.get("keys", []))
        elif k == "pred" and cur is not None:
            cur["preds"].append([e["k"], e["v"], e["keep"]])
        elif k == "cb" and cur is not None:
            cur["ncb"] += 1
        elif k == "ret" and cur is not None:
            r = dict(RDEF)
            for f in RDEF:
                if f in e:
                    r[f] = e[f]
            seen = e.get("seen", [])
            r["seen"] = seen[0] if seen else 0
            if is_set and cur["op"] == "insert" and not r["panic"]:
                r["ok"] = 1 - r["ok"]
            r["items"] = e.get("items", [])
            r["dbg"] = e.get("dbg", [])
            cur["r"] = r
            ev.append(cur)
            cur = None
        elif k == "obs":
            o = e["o"]
            ev.append({"e": "obs", "len": o["len"], "empty": o["empty"], "items": o["items"], "gets": o["gets"]})
    keys.discard(0)
    return {"id": trace["id"], "set": 1 if is_set else 0, "keys": sorted(keys), "ev": ev}
