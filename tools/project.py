"""Projections of harness traces to the inputs of the TLA+ trace specifications.
Pure renaming / filtering of recorded fields; no state is guessed."""

SET_RENAME = {"contains": "contains_key", "get": "get_key_value", "take": "remove_entry"}
PERKEY = {"get", "get_key_value", "contains_key", "contains", "insert", "try_insert", "remove",
          "remove_entry", "take", "compute"}


def lin_projection(trace, job, keep=None):
    """call/ret events of the per-key API -> Trace_Lin input."""
    is_set = job.get("kind") == "set"
    ev = []
    keys = set()
    threads = set()
    pending = {}
    for e in trace["ev"]:
        k = e.get("e")
        if k == "call":
            if e["op"] not in PERKEY:
                pending[e["t"]] = None
                continue
            op = e["op"]
            v = e.get("v", 0)
            if is_set:
                op = SET_RENAME.get(op, op)
                v = 1 if op in ("insert", "try_insert") else 0
            c = {"e": "call", "t": e["t"], "op": op, "k": e["k"], "tag": e.get("tag", 0), "v": v,
                 "pl": e.get("pl", 0), "f": e.get("f", "") or "-"}
            pending[e["t"]] = c
            keys.add(e["k"])
            threads.add(e["t"])
            ev.append(c)
        elif k == "ret":
            c = pending.get(e["t"])
            if c is None:
                continue
            ok = e.get("ok", 0)
            if is_set and c["op"] == "insert":
                ok = 1 - ok      # HashSet::insert returns "newly inserted"
            seen = e.get("seen", [])
            ev.append({"e": "ret", "t": e["t"], "ok": ok, "v": e.get("v", 0), "tag": e.get("tag", 0),
                       "ni": e.get("ni", 0), "pl": e.get("pl", 0), "seen": seen[0] if seen else 0, "ncb": len(seen),
                       "panic": e.get("panic", 0)})
            pending[e["t"]] = None
    return {"id": trace["id"], "set": 1 if is_set else 0, "keys": sorted(keys), "threads": sorted(threads),
            "ev": ev}


def nontrivial_lin(p):
    """A history is non-trivial if two operations of different threads on the same key overlap
    in time and at least one of them is an update."""
    open_ = {}
    for e in p["ev"]:
        if e["e"] == "call":
            for t, o in open_.items():
                if o["k"] == e["k"] and (o["op"] not in ("get", "get_key_value", "contains_key") or
                                         e["op"] not in ("get", "get_key_value", "contains_key")):
                    return True
            open_[e["t"]] = e
        else:
            open_.pop(e["t"], None)
    return False


RDEF = {"ok": 0, "v": 0, "tag": 0, "ni": 0, "seen": 0, "pl": 0, "n": 0, "empty": 0, "panic": 0}


def seq_projection(trace, job, thread=None):
    """Single-threaded run -> Trace_Seq input: one `op` event per call (with its logged result and
    callback invocations) followed by the observation taken after it."""
    is_set = job.get("kind") == "set"
    ev = []
    keys = set(job.get("finals", []))
    cur = None
    for e in trace["ev"]:
        k = e.get("e")
        if thread is not None and e.get("t") != thread and k in ("call", "ret", "pred", "cb", "obs"):
            continue
        if k == "call":
            op = e["op"]
            v = e.get("v", 0)
            if is_set:
                op = SET_RENAME.get(op, op)
                if op in ("insert", "try_insert"):
                    op, v = "insert", 1
            cur = {"e": "op", "op": op, "k": e.get("k", 0), "tag": e.get("tag", 0), "v": v,
                   "pl": 0 if is_set else e.get("pl", 0), "f": e.get("f", "") or "-", "n": e.get("n", 0),
                   "keys": e.get("keys", []), "g": ("foreign_ref" if (job.get("pin") or op == "index") else "foreign") if e.get("g") == "foreign" else "own",
                   "pa": e.get("pa", 0),
                   "ncb": 0, "preds": [], "r": None}
            keys.add(e.get("k", 0))
            keys.update(e.get("keys", []))
        elif k == "pred" and cur is not None:
            cur["preds"].append([e["k"], e["v"], e["keep"]])
        elif k == "cb" and cur is not None:
            cur["ncb"] += 1
        elif k == "ret" and cur is not None:
            r = dict(RDEF)
            for f in RDEF:
                if f in e:
                    r[f] = e[f]
            seen = e.get("seen", [])
            r["seen"] = seen[0] if seen else 0
            if is_set and cur["op"] == "insert" and not r["panic"]:
                r["ok"] = 1 - r["ok"]
            r["items"] = e.get("items", [])
            r["dbg"] = e.get("dbg", [])
            cur["r"] = r
            ev.append(cur)
            cur = None
        elif k == "obs":
            o = e["o"]
            ev.append({"e": "obs", "len": o["len"], "empty": o["empty"], "items": o["items"], "gets": o["gets"]})
    keys.discard(0)
    return {"id": trace["id"], "set": 1 if is_set else 0, "keys": sorted(keys), "ev": ev}


def quiescent_projection(trace, job):
    """observations taken at quiescent points -> Trace_Quiescent input"""
    ev = []
    for e in trace["ev"]:
        if e.get("e") in ("obs", "quiescent"):
            o = e["o"]
            if o.get("snap") is None:
                continue
            ev.append({"len": o["len"], "empty": o["empty"], "items": o["items"], "gets": o["gets"], "snap": o["snap"]})
    return {"id": trace["id"], "ev": ev}


def _hash_of(job, k):
    t = job["hasher"].get("table", [])
    return t[k] if k < len(t) else k


def _tab(o):
    s = o.get("snap") or {}
    ts = s.get("tables") or []
    if not ts:
        return 0, s.get("count", 0), []
    return ts[0]["len"], s.get("count", 0), ts[0]["bins"]


def capacity_projection(trace, job):
    """per-operation table length / count before and after (from the inspector observations)
    -> Trace_Capacity input. Needs a table-driven hasher (to know the bin a key hashes to)."""
    ev = []
    prev = None
    cur = None
    fills = job.get("fills", [])     # [(index of obs before, index of obs after, c, fresh)]
    obs = []
    for e in trace["ev"]:
        k = e.get("e")
        if k == "call":
            cur = e
        elif k == "obs":
            o = e["o"]
            obs.append(o)
            if prev is not None and cur is not None:
                lenb, cntb, binsb = _tab(prev)
                lena, cnta, _ = _tab(o)
                op = cur["op"]
                kind = "insert" if op in ("insert", "try_insert") else op if op in ("reserve", "extend") else "other"
                binpop = 0
                if kind == "insert" and lenb > 0:
                    b = binsb[_hash_of(job, cur["k"]) & (lenb - 1)]
                    binpop = len(b.get("nodes", []))
                ev.append({"e": "op", "op": op, "kind": kind, "lenb": lenb, "lena": lena, "cntb": cntb, "cnta": cnta, "binpop": binpop})
            prev = o
            cur = None
    for (i0, i1, c, fresh) in fills:
        if i0 < len(obs) and i1 < len(obs):
            ev.append({"e": "fill", "c": c, "fresh": fresh, "len0": _tab(obs[i0])[0], "len1": _tab(obs[i1])[0]})
    return {"id": trace["id"], "ev": ev}


SITE = {1: "start", 2: "join", 3: "leave", 4: "mig", 5: "pub", 6: "init"}


def resize_projection(trace, job):
    """resize site events (tables renamed to 1,2,.. in order of first appearance) + quiescent end
    -> Trace_Resize input"""
    names = {}

    def tid(a):
        if a not in names:
            names[a] = len(names) + 1
        return names[a]
    ev = []
    panics = 0
    for e in trace["ev"]:
        k = e.get("e")
        if k == "site" and e["s"] in SITE:
            s = SITE[e["s"]]
            if s == "init":
                ev.append({"e": "init", "tab": tid(e["a"]), "n": e["b"]})
            elif s == "start":
                ev.append({"e": "start", "tab": tid(e["a"]), "n": e["b"]})
            elif s == "join":
                ev.append({"e": "join", "tab": tid(e["a"])})
            elif s == "leave":
                ev.append({"e": "leave", "tab": tid(e["a"]), "fin": e["b"]})
            elif s == "mig":
                ev.append({"e": "mig", "tab": tid(e["a"]), "i": e["b"]})
            elif s == "pub":
                ev.append({"e": "pub", "old": tid(e["a"]), "new": tid(e["b"]), "n": e["c"]})
        elif k == "thread_panic" or (k == "ret" and e.get("panic")):
            panics += 1
        elif k == "quiescent":
            sn = e["o"].get("snap") or {}
            tabs = sn.get("tables") or []
            ev.append({"e": "end", "len": tabs[0]["len"] if tabs else 0, "sc": sn.get("sc", 0), "nt": sn.get("next_table", 0),
                       "dropok": 1 if trace.get("end", {}).get("drop_ok") else 0, "panics": panics})
    return {"id": trace["id"], "ev": ev}


def hist_projection(trace, job):
    """call/ret of per-key ops, retain (with pred events) and iterators (with yield events)
    -> Trace_Hist input"""
    p = lin_projection(trace, job)
    is_set = job.get("kind") == "set"
    ev = []
    keys = set(p["keys"])
    threads = set(p["threads"])
    pending = {}
    for e in trace["ev"]:
        k = e.get("e")
        if k == "call":
            op = e["op"]
            v = e.get("v", 0)
            if is_set:
                op = SET_RENAME.get(op, op)
                # every HashSet::insert brings a fresh unit value instance (identified by the call's uid)
                v = (e.get("n") or 1) if op in ("insert", "try_insert") else 0
            c = {"e": "call", "t": e["t"], "op": op, "k": e.get("k", 0), "tag": e.get("tag", 0), "v": v,
                 "pl": e.get("pl", 0), "f": e.get("f", "") or "-"}
            pending[e["t"]] = c
            threads.add(e["t"])
            if op in PERKEY:
                keys.add(e["k"])
            ev.append(c)
        elif k == "ret":
            c = pending.get(e["t"])
            if c is None:
                continue
            ok = e.get("ok", 0)
            if is_set and c["op"] == "insert":
                ok = 1 - ok
            seen = e.get("seen", [])
            ev.append({"e": "ret", "t": e["t"], "ok": ok, "v": e.get("v", 0), "tag": e.get("tag", 0),
                       "ni": e.get("ni", 0), "pl": e.get("pl", 0), "seen": seen[0] if seen else 0, "ncb": len(seen),
                       "panic": e.get("panic", 0)})
            pending[e["t"]] = None
        elif k == "pred":
            ev.append({"e": "pred", "t": e["t"], "k": e["k"], "v": e["v"], "keep": e["keep"]})
            keys.add(e["k"])
        elif k == "yield":
            ev.append({"e": "yield", "t": e["t"], "k": e["k"], "tag": e["tag"], "v": e["v"]})
            if e["k"]:
                keys.add(e["k"])
    return {"id": trace["id"], "set": 1 if is_set else 0, "keys": sorted(keys), "threads": sorted(threads), "ev": ev}


def reclaim_projection(trace, job):
    """reclamation events (objects renamed 1..n) -> Trace_Reclaim input"""
    names = {}

    def oid(a):
        if a not in names:
            names[a] = len(names) + 1
        return names[a]
    ev = []
    for e in trace["ev"]:
        k = e.get("e")
        if k in ("genter", "gleave"):
            ev.append({"e": k, "g": e["g"]})
        elif k == "retire":
            ev.append({"e": "retire", "o": oid(e["o"]), "reach": e.get("reach", 0), "ty": e.get("ty", "?")})
        elif k == "free":
            ev.append({"e": "free", "o": oid(e["o"])})
        elif k == "uaf":
            ev.append({"e": "uaf", "how": e.get("how", "?")})
        elif k in ("use_after_drop", "double_drop"):
            ev.append({"e": "bad", "how": k, "obj": e.get("obj", "?")})
        elif k == "canary":
            ev.append({"e": "canary", "bad": e["bad"], "n": e["n"]})
    en = trace.get("end") or {}
    if en:
        ev.append({"e": "end", "uaf": trace.get("uaf", 0), "corrupted": en.get("corrupted", 0), "dfree": en.get("double_free", 0),
                   "lviol": en.get("ledger_violations", 0), "alive": en.get("alive", 0), "live": en.get("live_blocks", 0),
                   "dropok": 1 if en.get("drop_ok", True) else 0})
    proto = 1 if (job.get("kind") == "map" and not job.get("threads_os")) else 0
    return {"id": trace["id"], "proto": proto, "ev": ev}


def rb_projection(trace, job):
    """tree-bin dumps of every quiescent observation + comparison counts of lookups -> Trace_RB input"""
    ev = []
    last = None
    for e in trace["ev"]:
        k = e.get("e")
        if k in ("obs", "quiescent"):
            sn = e["o"].get("snap")
            if not sn:
                continue
            last = sn
            for t in sn.get("tables", []):
                for b in t["bins"]:
                    if b["kind"] == "tree":
                        ev.append({"e": "tree", "root": b["root"], "first": b["first"],
                                   "inorder": b["inorder"] if b["inorder"] is not None else [],
                                   "nodes": [{f: n[f] for f in ("n", "k", "h0", "h1", "h2", "next", "prev", "parent", "left", "right", "red")} for n in b["nodes"]]})
        elif k == "ret" and "cmps" in e and last is not None:
            ts = last.get("tables") or []
            if not ts:
                continue
            tlen = ts[0]["len"]
            for kk, cnt, found in e["cmps"]:
                b = ts[0]["bins"][_hash_of(job, kk) & (tlen - 1)]
                ev.append({"e": "cmp", "n": len(b.get("nodes", [])), "cnt": cnt, "tlen": tlen})
    return {"id": trace["id"], "ev": ev}


ACQ = {2, 3, 4}
REL = {1, 3, 4}


def hb_projection(trace, job, ordtab=None):
    """atomic-operation stream -> Trace_HB input. Locations, mutexes and objects are renamed to small
    numbers. Effective orderings: loads through reclaim::Atomic::load are sequentially consistent
    (seize's protect) whatever ordering is passed; Atomic::clone is a Relaxed load."""
    loc, obj = {}, {}

    def lid(a):
        if a not in loc:
            loc[a] = len(loc) + 1
        return loc[a]

    def oid(a):
        if a not in obj:
            obj[a] = len(obj) + 1
        return obj[a]
    nthreads = len(job.get("threads", []))
    main = nthreads
    threads = list(range(nthreads + 1))
    ev = []
    allocated_by = {}
    forked = False
    joined = False
    for e in trace["ev"]:
        k = e.get("e")
        t = e.get("t")
        if k == "prefix_end":
            ev.append({"e": "fork", "t": main, "a": 0, "acq": 0, "rel": 0})
            forked = True
            continue
        if forked and not joined and t == main and k in ("step", "alloc", "deref", "call"):
            ev.append({"e": "join", "t": main, "a": 0, "acq": 0, "rel": 0})
            joined = True
        if k == "alloc":
            allocated_by[e["o"]] = t
            ev.append({"e": "alloc", "t": t, "a": oid(e["o"]), "acq": 0, "rel": 0})
        elif k == "deref":
            o = e["o"]
            if o in allocated_by and allocated_by[o] != t:
                ev.append({"e": "deref", "t": t, "a": oid(o), "acq": 0, "rel": 0})
        elif k == "unlock":
            ev.append({"e": "unlock", "t": t, "a": lid(("m", e["a"])), "acq": 0, "rel": 0})
        elif k == "step":
            kk = e["k"]
            if kk == "load":
                ev.append({"e": "ld", "t": t, "a": lid(e["a"]), "acq": 1, "rel": 0})
            elif kk == "clone":
                ev.append({"e": "ld", "t": t, "a": lid(e["a"]), "acq": 0, "rel": 0})
            elif kk == "store":
                ev.append({"e": "st", "t": t, "a": lid(e["a"]), "acq": 0, "rel": 1 if e["ord"] in REL else 0})
            elif kk == "swap":
                ev.append({"e": "rmw", "t": t, "a": lid(e["a"]), "acq": 1 if e["ord"] in ACQ else 0, "rel": 1 if e["ord"] in REL else 0})
            elif kk == "cas":
                if e["ok"]:
                    ev.append({"e": "rmw", "t": t, "a": lid(e["a"]), "acq": 1 if e["ord"] in ACQ else 0, "rel": 1 if e["ord"] in REL else 0})
                else:
                    ev.append({"e": "ld", "t": t, "a": lid(e["a"]), "acq": 1 if e["ordf"] in ACQ else 0, "rel": 0})
            elif kk == "word":
                acc = e["acc"]
                if ordtab is not None:
                    # the ordering the access really uses, read from the source at the hook's line
                    real = ordtab.get(("node.rs" if e["w"] == "ls" else "map.rs", e.get("ln", 0)))
                    if real is not None:
                        e = dict(e, ord=real[0], ordf=real[1])
                if acc == "load":
                    ev.append({"e": "ld", "t": t, "a": lid(e["a"]), "acq": 1 if e["ord"] in ACQ else 0, "rel": 0})
                elif acc == "store":
                    ev.append({"e": "st", "t": t, "a": lid(e["a"]), "acq": 0, "rel": 1 if e["ord"] in REL else 0})
                elif acc == "cas" and not e["ok"]:
                    ev.append({"e": "ld", "t": t, "a": lid(e["a"]), "acq": 1 if e.get("ordf", 0) in ACQ else 0, "rel": 0})
                else:
                    ev.append({"e": "rmw", "t": t, "a": lid(e["a"]), "acq": 1 if e["ord"] in ACQ else 0, "rel": 1 if e["ord"] in REL else 0})
            elif kk == "lock":
                ev.append({"e": "lock", "t": t, "a": lid(("m", e["a"])), "acq": 0, "rel": 0})
            elif kk == "park":
                ev.append({"e": "park", "t": t, "a": 0, "acq": 0, "rel": 0})
            elif kk == "unpark" and e.get("u", -1) >= 0:
                ev.append({"e": "unpark", "t": t, "a": e["u"], "acq": 0, "rel": 0})
    return {"id": trace["id"], "threads": threads, "ev": ev}
