"""Shared machinery for the flurry verification checks (stdlib only).

  * building the harness from /repo's working tree (hooks on),
  * running harness jobs in child processes (a crash of the code under test is data),
  * running TLC (exhaustive configs and trace validation) and parsing its output,
  * verdicts: VIOLATION / KNOWN-FINDING lines, replay files, evidence files.
"""
import hashlib
import json
import os
import re
import shutil
import signal
import subprocess
import sys
import time

VERIF = os.path.dirname(os.path.dirname(os.path.abspath(__file__)))
REPO = os.environ.get("VERIF_SBX_REPO", "/repo")  # the sandbox override is only used by tools/sbx.sh (seeded-change trials)
WORK = os.path.join(VERIF, "work")
SPEC = os.path.join(VERIF, "spec")
HARNESS = os.path.join(VERIF, "harness")
FVH = os.path.join(HARNESS, "target", "release", "fvh")
REPLAYS = os.path.join(VERIF, "replays")
EVIDENCE = os.path.join(VERIF, "evidence")
TLA_CP = "/opt/veriftools/tla/tla2tools.jar:/opt/veriftools/tla/CommunityModules-deps.jar"


class ToolError(Exception):
    pass


def log(*a):
    print(*a, file=sys.stderr, flush=True)


def ensure_dirs():
    for d in (WORK, REPLAYS, EVIDENCE):
        os.makedirs(d, exist_ok=True)


# ------------------------------------------------------------------------------------------
# harness

_built = False


def build_harness():
    """cargo build of the harness against /repo's current working tree, hooks enabled."""
    global _built
    if _built:
        return FVH
    ensure_dirs()
    lock = os.path.join(HARNESS, "Cargo.lock")
    if not os.path.exists(lock):
        shutil.copy(os.path.join(REPO, "Cargo.lock"), lock)
    t0 = time.time()
    p = subprocess.run(["cargo", "build", "--release", "--offline"], cwd=HARNESS,
                       stdout=subprocess.PIPE, stderr=subprocess.STDOUT, text=True)
    if p.returncode != 0:
        log(p.stdout[-4000:])
        raise ToolError("harness build failed (does /repo compile with --cfg flurry_verif?)")
    log("harness built in %.1fs" % (time.time() - t0))
    _built = True
    return FVH


def _run_chunk(jobs, tag, timeout):
    """Run jobs in one child; on a crash/hang attribute it to the job that was running and
    continue with the rest. Returns list of (job, trace|None, crash|None)."""
    results = []
    todo = list(jobs)
    rnd = 0
    while todo:
        rnd += 1
        jf = os.path.join(WORK, "%s.p%d.%d.jobs.ndjson" % (tag, os.getpid(), rnd))     # (two checks may run at the same time)
        of = os.path.join(WORK, "%s.p%d.%d.out.ndjson" % (tag, os.getpid(), rnd))
        with open(jf, "w") as f:
            for j in todo:
                f.write(json.dumps(j) + "\n")
        if os.path.exists(of):
            os.remove(of)
        # watchdog: a single job that produces no END marker for `job_timeout` seconds is hung
        job_timeout = float(os.environ.get("VERIF_JOB_TIMEOUT", "40"))
        import threading
        proc = subprocess.Popen([FVH, "run", "--jobs", jf, "--out", of], stdout=subprocess.PIPE, stderr=subprocess.PIPE, text=True)
        lines, errbuf = [], []
        last = [time.time()]

        def rd_out():
            for ln in proc.stdout:
                lines.append(ln)
                last[0] = time.time()

        def rd_err():
            for ln in proc.stderr:
                errbuf.append(ln)
        t1 = threading.Thread(target=rd_out, daemon=True)
        t2 = threading.Thread(target=rd_err, daemon=True)
        t1.start()
        t2.start()
        hung = False
        t_start = time.time()
        while proc.poll() is None:
            time.sleep(0.2)
            if time.time() - last[0] > job_timeout or time.time() - t_start > timeout:
                hung = True
                proc.kill()
                break
        proc.wait()
        t1.join(timeout=5)
        t2.join(timeout=5)
        rc = -9 if hung else proc.returncode
        out = "".join(lines)
        err = "".join(errbuf[-200:])
        traces = {}
        if os.path.exists(of):
            for line in open(of, errors="replace"):
                line = line.strip()
                if not line:
                    continue
                try:
                    t = json.loads(line)
                    traces[t["id"]] = t
                except Exception:
                    pass
        begun = re.findall(r"^BEGIN (\S+)$", out, re.M)
        ended = set(re.findall(r"^END (\S+)$", out, re.M))
        byid = {j["id"]: j for j in todo}
        for jid in begun:
            if jid in ended and jid in traces:
                results.append((byid[jid], traces[jid], None))
        done = set(j for j in begun if j in ended and j in traces)
        if rc == 0 and not hung:
            missing = [j for j in todo if j["id"] not in done]
            for j in missing:
                # the job ran to its END marker but its trace line is unreadable: memory was corrupted
                results.append((j, None, {"rc": 0, "hung": False, "stderr": "unreadable trace line (corrupted output)", "signal": "CORRUPT"}))
            break
        # crashed or hung inside the job that was begun but not ended
        crashed = [j for j in begun if j not in ended]
        if not crashed:
            raise ToolError("harness failed outside any job: rc=%s %s" % (rc, err[-2000:]))
        cj = byid[crashed[-1]]
        crash = {"rc": rc, "hung": hung, "stderr": err[-3000:],
                 "signal": (signal.Signals(-rc).name if rc < 0 and not hung else None)}
        results.append((cj, None, crash))
        done.add(cj["id"])
        todo = [j for j in todo if j["id"] not in done]
        if rnd >= 4:
            # the crate keeps crashing / hanging: four replayable failures per chunk are enough
            log("  %s: %d jobs not run after repeated crashes/hangs" % (tag, len(todo)))
            break
    # the job and output files have been read: keep the work directory small
    for r in range(1, rnd + 1):
        for f_ in (os.path.join(WORK, "%s.p%d.%d.jobs.ndjson" % (tag, os.getpid(), r)), os.path.join(WORK, "%s.p%d.%d.out.ndjson" % (tag, os.getpid(), r))):
            try:
                os.remove(f_)
            except OSError:
                pass
    return results


def run_jobs(jobs, tag, procs=8, timeout=600):
    """Run jobs across `procs` child processes. Returns list of (job, trace|None, crash|None)
    in job order."""
    build_harness()
    if not jobs:
        return []
    import concurrent.futures as cf
    procs = max(1, min(procs, len(jobs)))
    chunks = [jobs[i::procs] for i in range(procs)]
    out = []
    with cf.ThreadPoolExecutor(max_workers=procs) as ex:
        futs = [ex.submit(_run_chunk, c, "%s.c%d" % (tag, i), timeout) for i, c in enumerate(chunks)]
        for f in futs:
            out.extend(f.result())
    order = {j["id"]: i for i, j in enumerate(jobs)}
    out.sort(key=lambda r: order[r[0]["id"]])
    return out


# ------------------------------------------------------------------------------------------
# TLC

def run_tlc(module, cfg=None, env=None, workers=4, timeout=600, simulate=None, depth=None,
            xmx="4g", deque=False, coverage=False, extra=None, cwd=None, metadir=None):
    """Run TLC on spec/<module>.tla. Returns dict(out, rc, states, distinct, wall, timeout)."""
    ensure_dirs()
    cwd = cwd or SPEC
    metadir = metadir or os.path.join(WORK, "tlc_%s_%d_%d" % (module, os.getpid(), int(time.time() * 1000) % 100000))
    cmd = ["java", "-XX:+UseParallelGC", "-Xmx" + xmx, "-Xss1g"]
    if deque:
        cmd.append("-Dtlc2.tool.queue.IStateQueue=StateDeque")
    cmd += ["-cp", TLA_CP, "tlc2.TLC", "-workers", str(workers), "-metadir", metadir, "-cleanup",
            "-noGenerateSpecTE"]
    if cfg:
        cmd += ["-config", cfg]
    if simulate:
        cmd += ["-simulate", "num=%d" % simulate]
    if depth:
        cmd += ["-depth", str(depth)]
    if coverage:
        cmd += ["-coverage", "1"]
    if extra:
        cmd += extra
    cmd.append(module + ".tla")
    e = dict(os.environ)
    if env:
        e.update({k: str(v) for k, v in env.items()})
    t0 = time.time()
    try:
        p = subprocess.run(cmd, cwd=cwd, env=e, stdout=subprocess.PIPE, stderr=subprocess.STDOUT,
                           text=True, timeout=timeout)
        out, rc, to = p.stdout, p.returncode, False
    except subprocess.TimeoutExpired as ex:
        out = ex.stdout.decode() if isinstance(ex.stdout, bytes) else (ex.stdout or "")
        rc, to = -1, True
    shutil.rmtree(metadir, ignore_errors=True)
    wall = time.time() - t0
    states = distinct = 0
    m = re.findall(r"(\d+) states generated, (\d+) distinct states found", out)
    if m:
        states, distinct = int(m[-1][0]), int(m[-1][1])
    return {"out": out, "rc": rc, "states": states, "distinct": distinct, "wall": wall, "timeout": to,
            "cmd": " ".join(cmd)}


def tlc_ok(r):
    """TLC finished its exploration without error."""
    return (not r["timeout"]) and ("Model checking completed. No error has been found." in r["out"]
                                   or "Finished computing initial states" in r["out"] and r["rc"] == 0)


def tlc_coverage(out):
    """per-action counts from -coverage 1 output: {action: (distinct, total)}"""
    cov = {}
    for m in re.finditer(r"<(\w+) line \d+, col \d+ to line \d+, col \d+ of module (\w+)>: (\d+):(\d+)", out):
        cov[m.group(1)] = (int(m.group(3)), int(m.group(4)))
    return cov


def validate_traces(module, traces, tag, workers=4, timeout=900, cfg=None, env=None, chunk=1500):
    """Validate projected traces (list of dicts with 'id') against spec/<module>.tla.
    Returns dict(accepted=set(ids), rejected=[ids], states, distinct, out).
    Large inputs are validated in chunks (one TLC run each); a run that times out is repeated once with
    three times the limit (the machine may be busy) before it is reported as a tool error."""
    ensure_dirs()
    if not traces:
        return {"accepted": set(), "rejected": [], "states": 0, "distinct": 0, "out": "", "wall": 0}
    acc, rej = set(), []
    states = distinct = 0
    wall = 0.0
    out = ""
    tf = os.path.join(WORK, "%s.p%d.traces.ndjson" % (tag, os.getpid()))
    for c0 in range(0, len(traces), chunk):
        part = traces[c0:c0 + chunk]
        with open(tf, "w") as f:
            for t in part:
                f.write(json.dumps(t) + "\n")
        e = {"TRACES": tf}
        if env:
            e.update(env)
        r = run_tlc(module, cfg=cfg or (module + ".cfg"), env=e, workers=workers, timeout=timeout)
        if r["timeout"]:
            r = run_tlc(module, cfg=cfg or (module + ".cfg"), env=e, workers=workers, timeout=3 * timeout)
        if r["timeout"]:
            raise ToolError("TLC timed out validating %s traces with %s" % (len(part), module))
        if "No error has been found" not in r["out"]:
            raise ToolError("TLC failed on %s:\n%s" % (module, r["out"][-3000:]))
        a = set(re.findall(r'<<"ACCEPT", "([^"]+)"(?:, [^>]*)?>>', r["out"]))
        acc |= a
        rej += [t["id"] for t in part if t["id"] not in a]
        states += r["states"]
        distinct += r["distinct"]
        wall += r["wall"]
        out += r["out"]
    try:
        os.remove(tf)
    except OSError:
        pass
    return {"accepted": acc, "rejected": rej, "states": states, "distinct": distinct,
            "out": out, "wall": wall, "file": tf}


def diagnose_trace(module, trace, tag, cfg=None, env=None):
    """Re-run one rejected trace alone; returns the longest matched prefix length (events
    consumed) and the first unmatched event."""
    tf = os.path.join(WORK, "%s.p%d.diag.ndjson" % (tag, os.getpid()))
    with open(tf, "w") as f:
        f.write(json.dumps(trace) + "\n")
    e = {"TRACES": tf, "DIAG": "1"}
    if env:
        e.update(env)
    r = run_tlc(module, cfg=cfg or (module + ".cfg"), env=e, workers=1, timeout=300, deque=True)
    ls = [int(x) for x in re.findall(r'<<"AT", "[^"]+", (\d+)>>', r["out"])]
    far = max(ls) if ls else 0
    ev = trace.get("ev", [])
    nxt = ev[far - 1] if 0 < far <= len(ev) else None
    return {"matched_events": max(far - 1, 0), "first_unmatched": nxt, "total_events": len(ev)}


# ------------------------------------------------------------------------------------------
# verdicts, replay files, evidence

def dedupe(traces, key=lambda t: json.dumps(t.get("ev"), sort_keys=True)):
    seen = {}
    out = []
    for t in traces:
        h = hashlib.sha1(key(t).encode()).hexdigest()
        if h in seen:
            continue
        seen[h] = t["id"]
        out.append(t)
    return out


def load_known_findings():
    p = os.path.join(VERIF, "known_findings.json")
    if not os.path.exists(p):
        return {"known": [], "fixed": []}
    return json.load(open(p))


def write_replay(pid, name, payload):
    ensure_dirs()
    p = os.path.join(REPLAYS, "%s-%s.json" % (pid, name))
    with open(p, "w") as f:
        json.dump(payload, f, indent=1)
    return p


class Verdict:
    """Collects violations for one property run; prints VIOLATION / KNOWN-FINDING lines."""

    def __init__(self, pid):
        self.pid = pid
        self.violations = []   # (signature, replay path, text)
        self.known_hits = {}
        self.kf = [k for k in load_known_findings().get("known", []) if k.get("property") == pid]
        # replay files of earlier runs of this check are stale
        ensure_dirs()
        for f in os.listdir(REPLAYS):
            if f.startswith(pid + "-"):
                try:
                    os.remove(os.path.join(REPLAYS, f))
                except OSError:
                    pass

    def violation(self, signature, name, payload, text):
        """signature: a stable string describing *what* fails (used to match known findings)."""
        for k in self.kf:
            if re.search(k["match"], signature):
                self.known_hits.setdefault(k["id"], (k, 0))
                kk, n = self.known_hits[k["id"]]
                self.known_hits[k["id"]] = (kk, n + 1)
                return
        path = write_replay(self.pid, name, payload)
        self.violations.append((signature, path, text))

    def finish(self):
        for kid, (k, n) in sorted(self.known_hits.items()):
            print("KNOWN-FINDING: property=%s %s (%s; reproduced %d times in this run)" % (self.pid, k["what"], kid, n))
        per_sig = {}
        for sig, path, text in self.violations:
            per_sig[sig] = per_sig.get(sig, 0) + 1
            if per_sig[sig] > 3:
                continue          # at most three replay lines per kind of failure
            print("VIOLATION property=%s replay=%s" % (self.pid, path))
            log("  " + text)
        for sig, n in per_sig.items():
            if n > 3:
                log("  (%d more violations of kind %s; replay files are in %s)" % (n - 3, sig, REPLAYS))
        sys.stdout.flush()
        return 1 if self.violations else 0


def write_evidence(pid, tier, seed, level, coverage, wall, violations, assumptions=None):
    ensure_dirs()
    ev = {"property_id": pid, "tier": tier, "seed": int(seed), "level": level, "coverage": coverage,
          "assumptions": assumptions or [], "wall_s": round(wall, 2), "violations": int(violations)}
    with open(os.path.join(EVIDENCE, "%s.json" % pid), "w") as f:
        json.dump(ev, f, indent=1)
    return ev


def scenario_jobs(pid, rec=None):
    """scripted critical schedules (regressions of fixed findings) tagged for this property"""
    import glob
    jobs = []
    for f in sorted(glob.glob(os.path.join(VERIF, "scenarios", "*.json"))):
        j = json.load(open(f))
        if pid in j.get("props", []):
            if rec is not None:
                j["rec"] = list(rec)
            jobs.append(j)
    return jobs


def add_spec_coverage(cov, pid, tier):
    """run the exhaustive TLC configurations of the implementation-shaped specification that serve
    this property and add their totals to the coverage record"""
    import mc
    spec_cov, st, tr = mc.run_for(pid, tier)
    cov["exhaustive_spec"] = spec_cov
    cov["trace_validation_states"] = cov.get("states", 0)
    cov["states"] = cov.get("states", 0) + st
    cov["transitions"] = cov.get("transitions", 0) + tr
    return cov
