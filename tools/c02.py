"""C02 — sequential behaviour equals the reference (abstract) map: op sequences generated from
FlurrySeq (TLC) and by a seeded generator are replayed into HashMap / HashSet through both facades
for several hashers and capacities; every result and, after every step, len / is_empty / the full
contents via iteration and via lookup of every key are validated by TLC against Trace_Seq."""
import json
import random
import time

import gen
import lib
import project

KEYS = [1, 2, 3, 4]


def hashers(rng):
    return [
        ("default", {"kind": "default"}),
        ("const", gen.table_hasher({k: 5 for k in range(0, 40)})),
        ("highbits", gen.table_hasher({k: (k << 40) for k in range(0, 40)})),
        ("samebin", gen.table_hasher({k: 3 + 64 * k for k in range(0, 40)})),
        ("identity", gen.table_hasher({})),
    ]


def rand_op(rng, u, kind, keys, allow_fault=False, allow_foreign=False):
    r = rng.random()
    k = rng.choice(keys)
    if kind == "set":
        names = ["insert", "insert", "remove", "take", "contains", "get", "len", "iter", "clear", "retain",
                 "extend", "reserve", "is_disjoint", "is_subset", "is_superset", "clone_eq", "eq_other", "debug"]
    else:
        names = ["insert", "insert", "insert", "try_insert", "get", "get_key_value", "contains_key", "remove",
                 "remove_entry", "compute", "compute", "len", "iter", "keys", "values", "clear", "retain",
                 "retain_force", "extend", "reserve", "clone_eq", "eq_other", "debug", "index"]
    op = rng.choice(names)
    o = {"op": op, "k": k}
    if op in ("insert", "try_insert"):
        o.update(tag=rng.randint(1, 3), n=u.next(), pl=rng.randint(0, 5))
    elif op == "compute":
        o.update(f=rng.choice(["inc", "none", "const"]), n=u.next(), pl=rng.randint(0, 5))
    elif op in ("retain", "retain_force"):
        o.update(f=rng.choice(["even", "odd", "none", "all", "keep", "plt"]), keys=rng.sample(keys, rng.randint(0, len(keys))), n=rng.randint(0, 5))
    elif op == "extend":
        ks = [rng.choice(keys) for _ in range(rng.randint(0, 5))]
        o.update(keys=ks, tag=rng.randint(1, 3), n=u.next(len(ks) + 1), pl=rng.randint(0, 5))
    elif op == "reserve":
        o.update(n=rng.choice([0, 1, 5, 40, 100]))
    elif op in ("is_disjoint", "is_subset", "is_superset", "eq_other"):
        o.update(keys=rng.sample(keys, rng.randint(0, len(keys))), pl=rng.randint(0, 2))
    if op == "index" and rng.random() < 0.7:
        pass
    if allow_fault and op in ("compute", "retain", "retain_force", "iter") and rng.random() < 0.5:
        o["panic_at"] = 1 if op == "compute" else rng.randint(1, 3)
    if allow_foreign and rng.random() < 0.3:
        o["guard"] = "foreign"
    return o


def make_job(rng, jid, seqlen, kind=None, hasher=None, cap=None, pin=None, keys=None, ops=None, **kw):
    u = gen.Uids()
    kind = kind or rng.choice(["map", "map", "set"])
    keys = keys or KEYS
    hs = hashers(rng)
    hname, h = hasher or rng.choice(hs)
    ops = ops if ops is not None else [rand_op(rng, u, kind, keys, **kw) for _ in range(seqlen)]
    pin = rng.random() < 0.5 if pin is None else pin
    if kind == "set":
        ops = [o for o in ops if o["op"] not in ("index",)]
    return {"id": jid, "cfg": hname, "kind": kind, "pin": pin, "scope": rng.choice(["thread", "op"]),
            "hasher": h, "cap": rng.choice([0, 1, 2, 3, 8, 16, 43]) if cap is None else cap,
            "batch": rng.choice([0, 1]), "prefix": ops, "threads": [], "finals": keys, "check_each": True,
            "rec": ["snap", "site"]}


def tree_focus_job(rng, jid):
    """build a tree bin (colliding keys in a >= 64-bin table), then whole-map operations on it"""
    u = gen.Uids()
    kind = rng.choice(["map", "map", "set"])
    keys = list(range(1, 20))
    hs = dict(hashers(rng))
    hname = rng.choice(["const", "highbits", "samebin"])
    ops = [{"op": "insert", "k": k, "tag": 1, "n": u.next(), "pl": rng.randint(0, 5)} for k in rng.sample(keys, rng.randint(10, 16))]
    names = ["clear", "retain", "retain", "retain_force", "remove", "compute", "iter", "len", "insert", "insert", "extend", "clone_eq", "get", "debug"]
    for _ in range(rng.randint(4, 14)):
        o = rand_op(rng, u, kind, keys)
        want = rng.choice(names)
        tries = 0
        while o["op"] != want and tries < 60:
            o = rand_op(rng, u, kind, keys)
            tries += 1
        ops.append(o)
    return make_job(rng, jid, 0, kind=kind, hasher=(hname, hs[hname]), cap=rng.choice([43, 43, 0, 16]), keys=keys, ops=ops)


def run(pid, tier, seed, njobs=None):
    t0 = time.time()
    verdict = lib.Verdict(pid)
    rng = random.Random(seed)
    n = njobs or (1500 if tier == "quick" else 20000)
    jobs = []
    for i in range(n):
        if i % 5 == 1:
            jobs.append(tree_focus_job(rng, "c02-%05d" % i))
        elif i % 3 == 0:
            keys = list(range(1, 14))   # enough colliding keys to build and shrink tree bins
            jobs.append(make_job(rng, "c02-%05d" % i, rng.randint(10, 40), keys=keys))
        else:
            jobs.append(make_job(rng, "c02-%05d" % i, rng.randint(1, 12)))
    res = lib.run_jobs(jobs, "c02", procs=8)
    rc = finish_seq(pid, tier, seed, verdict, jobs, res, t0,
                    rule="seeded op sequences (1-40 ops) over the whole public API x {default, constant, high-bit-only, "
                         "same-bin/different-hash, identity} hashers x capacities {0,1,2,3,8,16,43} x map/set x guard/pin; "
                         "distinct = distinct recorded event sequence; non-trivial = the run contains a structural transition "
                         "(resize, treeify or untreeify site event) or a removal of a present key")
    return rc


def finish_seq(pid, tier, seed, verdict, jobs, res, t0, rule, module="Trace_Seq", extra_cov=None, sig_prefix="seq", level="model_checking"):
    projected, byid, crashes = [], {}, 0
    for job, trace, crash in res:
        if crash is not None:
            crashes += 1
            verdict.violation("crash:%s:%s" % (sig_prefix, crash.get("signal") or ("hang" if crash["hung"] else crash["rc"])),
                              job["id"], {"job": job, "crash": crash}, "the crate crashed/hung while running job %s (%s)" % (job["id"], crash))
            continue
        p = project.seq_projection(trace, job, thread=len(job.get("threads", [])))
        byid[p["id"]] = (job, trace, p)
        projected.append(p)
    distinct = lib.dedupe(projected)
    v = lib.validate_traces(module, distinct, pid.lower(), workers=6)
    for rid in v["rejected"]:
        job, trace, p = byid[rid]
        d = lib.diagnose_trace(module, p, pid.lower())
        fu = d["first_unmatched"] or {}
        sig = "%s:%s:%s:%s" % (sig_prefix, fu.get("op", fu.get("e")), fu.get("g", ""), "fault" if fu.get("pa") else "")
        verdict.violation(sig, rid, {"job": job, "trace": p, "diagnosis": d},
                          "run %s deviates from the sequential specification at event %d: %s"
                          % (rid, d["matched_events"] + 1, json.dumps(fu)[:600]))
    def nontrivial(job, trace):
        for e in trace["ev"]:
            if e.get("e") == "site" and e.get("s") in (1, 7, 8):
                return True
        return False
    nt = sum(1 for p in distinct if nontrivial(*byid[p["id"]][:2]))
    cov = {"states": max(v["states"], 1), "transitions": max(v["states"], 1),
           "traces_validated_against_impl": len(v["accepted"]), "evaluations": len(jobs),
           "distinct_nontrivial": nt, "rule": rule,
           "samples": [{"job": byid[distinct[0]["id"]][0]["prefix"][:6], "events": distinct[0]["ev"][:3]}] if distinct else [],
           "distinct_runs": len(distinct), "rejected": len(v["rejected"]), "crashes": crashes,
           "replayed_steps": sum(len(p["ev"]) for p in distinct),
           "tlc_trace_validation": {"states": v["states"], "distinct": v["distinct"], "wall_s": round(v["wall"], 1)}}
    if extra_cov:
        cov.update(extra_cov)
    rc = verdict.finish()
    lib.write_evidence(pid, tier, seed, level, cov, time.time() - t0, len(verdict.violations),
                       ["Eq/Ord/Hash of keys are consistent", "TLC / SANY", "the harness's observation code (iter / get / len through the public API)"])
    return rc
