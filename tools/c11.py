"""C11 — every operation terminates under any fair schedule (no deadlock, no lost wake-up).
(A) TLC: deadlock freedom and <>AllDone under weak fairness on TreeBinLock.tla (tree-bin read-write
lock with waiter slot, park token, spurious wake-ups) - run by this check; (B) the real crate under the
cooperative scheduler, where blocking is a state: mixes of readers and writers on list bins, tree
bins (contended root lock), the table-initialisation race and resizing tables; every run must end
Done with nothing locked (Trace_Live)."""
import json
import os
import random
import time

import gen
import lib
import project


def tree_contention_job(rng, jid):
    """readers and writers on one tree bin: rotations, contended root lock, waiting writer"""
    u = gen.Uids()
    mixed = rng.random() < 0.4
    h = {i: (7 + 64 * (i % 4) if mixed else 7) for i in range(1, 40)}
    npre = rng.randint(9, 16)
    pre = [gen.ins(k, u) for k in range(1, npre + 1)]
    nt = rng.choice([2, 3, 3, 4])
    threads = []
    for t in range(nt):
        prog = []
        for _ in range(rng.randint(2, 5)):
            r = rng.random()
            if t == 0 or r < 0.45:
                op = rng.choice(["get", "get", "contains_key", "get_key_value"])
                prog.append({"op": op, "k": rng.randint(1, npre + 8)})
            elif r < 0.75:
                prog.append(gen.ins(rng.randint(npre + 1, npre + 12), u))
            elif r < 0.9:
                prog.append({"op": "remove", "k": rng.randint(1, npre)})
            else:
                prog.append({"op": "compute", "k": rng.randint(1, npre), "f": rng.choice(["inc", "none"]), "n": u.next()})
        threads.append(prog)
    return {"id": jid, "cfg": "treelock", "kind": "map", "pin": rng.random() < 0.3, "scope": rng.choice(["op", "thread"]),
            "hasher": gen.table_hasher(h), "cap": 43, "batch": rng.choice([0, 1]), "prefix": pre, "threads": threads,
            "sched": gen.schedule(rng, nt, 1500), "finals": list(range(1, npre + 13)), "rec": [], "budget": 400000}


def stale_reader_job(rng, jid):
    """a reader / writer that loaded an old table is overtaken by two or more complete resizes"""
    u = gen.Uids()
    pre = [gen.ins(k, u) for k in rng.sample([13, 14, 15, 29, 30, 7], 2)]
    present = [p["k"] for p in pre]
    kind = rng.choice(["map", "map", "set"])
    k = rng.choice(present + [21, 45])
    op = rng.choice(["get", "contains_key", "get_key_value", "remove", "compute", "insert"]) if kind == "map" else rng.choice(["get", "contains", "remove", "insert"])
    o = {"op": op, "k": k}
    if op == "insert":
        o.update(tag=2, n=u.next())
    if op == "compute":
        o.update(f="inc", n=u.next())
    writers = [[gen.ins(kk, u) for kk in range(100 + 20 * w, 100 + 20 * w + rng.randint(6, 16))] for w in range(rng.choice([1, 2]))]
    threads = [[o]] + writers
    j = rng.randint(1, 4)
    script = [{"run": 0, "until": {"kind": "load", "nth": j}}] + [{"finish": t} for t in range(1, len(threads))] + [{"finish": 0}]
    return {"id": jid, "cfg": "stale", "kind": kind, "pin": rng.random() < 0.3, "scope": "op", "hasher": gen.table_hasher({}), "cap": 2,
            "batch": rng.choice([0, 1]), "prefix": pre, "threads": threads, "script": script, "sched": gen.schedule(rng, len(threads), 400),
            "finals": [7, 13, 14, 15, 21, 29, 30, 45] + [kk for w in writers for kk in [x["k"] for x in w]], "rec": [], "budget": 300000}


def init_race_job(rng, jid):
    u = gen.Uids()
    nt = rng.choice([2, 3, 4])
    threads = [[gen.ins(rng.randint(1, 6), u) for _ in range(rng.randint(1, 2))] + [{"op": "get", "k": rng.randint(1, 6)}] for _ in range(nt)]
    if rng.random() < 0.3:
        threads[0].insert(0, {"op": "reserve", "n": rng.choice([1, 20])})
    return {"id": jid, "cfg": "initrace", "kind": rng.choice(["map", "set"]), "pin": False, "scope": "op", "hasher": gen.table_hasher({}),
            "cap": 0, "batch": 0, "prefix": [], "threads": threads, "sched": gen.schedule(rng, nt, 200), "finals": list(range(1, 7)),
            "rec": [], "budget": 200000}


def live_projection(trace, job):
    locked = treelocked = 0
    panics = sum(1 for e in trace["ev"] if e.get("e") == "thread_panic" or (e.get("e") == "ret" and e.get("panic")))
    for e in trace["ev"]:
        if e.get("e") == "quiescent":
            sn = e["o"].get("snap") or {}
            for t in sn.get("tables", []):
                for b in t["bins"]:
                    if b["kind"] in ("list", "tree") and b.get("locked"):
                        locked += 1
                    if b["kind"] == "tree" and (b.get("ls") or b.get("waiter")):
                        treelocked += 1
    return {"id": trace["id"], "ev": [{"outcome": trace["outcome"], "panics": panics, "locked": locked, "treelocked": treelocked}]}


def run(pid, tier, seed, njobs=None):
    t0 = time.time()
    verdict = lib.Verdict(pid)
    rng = random.Random(seed)
    # (A) the specification: run at the end (lib.add_spec_coverage)
    spec_cov = {}
    # (B) the code
    n = njobs or (900 if tier == "quick" else 12000)
    jobs = []
    names = list(gen.configs())
    for i in range(n):
        m = i % 5
        if m == 0:
            jobs.append(tree_contention_job(rng, "c11-%05d" % i))
        elif m == 1:
            jobs.append(init_race_job(rng, "c11-%05d" % i))
        elif m == 4 and i % 10 == 4:
            import c10
            jobs.append(c10.overdue_job(rng, "c11-%05d" % i))       # an overdue resize met by a removal / compute under its bin lock
        elif m == 4:
            jobs.append(stale_reader_job(rng, "c11-%05d" % i))
        else:
            j = gen.conc_job(rng, "c11-%05d" % i, cfgname=names[i % len(names)], whole=0.25, maxops=4)
            if j["sched"].get("kind") == "os":
                j["sched"] = gen.schedule(rng, len(j["threads"]))
            jobs.append(j)
    res = lib.run_jobs(jobs, "c11", procs=8, timeout=1800)
    projected, byid, outcomes = [], {}, {}
    parks = spins = 0
    for job, trace, crash in res:
        if crash is not None:
            kind = "hang" if crash["hung"] else (crash.get("signal") or crash["rc"])
            verdict.violation("crash:%s:%s" % (job.get("cfg"), kind), job["id"], {"job": job, "crash": crash},
                              "job %s: the crate %s (%s)" % (job["id"], "did not return (hang outside any yield point)" if crash["hung"] else "crashed", str(crash)[:200]))
            continue
        outcomes[trace["outcome"]] = outcomes.get(trace["outcome"], 0) + 1
        parks += sum(t["parks"] for t in trace["threads"])
        spins += sum(t["spins"] for t in trace["threads"])
        p = live_projection(trace, job)
        byid[p["id"]] = (job, trace, p)
        projected.append(p)
    v = lib.validate_traces("Trace_Live", projected, "c11", workers=4)
    for rid in v["rejected"]:
        job, trace, p = byid[rid]
        job2 = dict(job)
        job2["sched"] = {"kind": "list", "steps": trace["schedule"]}
        job2.pop("script", None)
        e = p["ev"][0]
        stuck = [x for x in trace["ev"] if x.get("e") == "stuck"]
        verdict.violation("%s:%s" % (e["outcome"].lower() if e["outcome"] != "Done" else "locked-at-end", job.get("cfg")), rid,
                          {"job": job2, "summary": e, "stuck": stuck[-1:] if stuck else []},
                          "job %s ends %s (panics=%d, bin locks held=%d, tree locks held=%d) %s"
                          % (rid, e["outcome"], e["panics"], e["locked"], e["treelocked"], json.dumps(stuck[-1:])[:300]))
    cov = {"states": max(v["states"], 1), "transitions": max(v["states"], 1),
           "traces_validated_against_impl": len(v["accepted"]), "evaluations": len(jobs),
           "distinct_nontrivial": sum(1 for p in projected if byid[p["id"]][1]["nsteps"] > 50),
           "rule": "scheduled runs of 2-4 threads: readers+writers on a tree bin (rotations, contended root lock), table-initialisation "
                   "race, per-key and whole-map operations across resizes; random / PCT / sticky / round-robin schedules; "
                   "non-trivial = more than 50 scheduled steps",
           "samples": [{"job": jobs[0]["threads"], "outcome": projected[0]["ev"][0]}] if projected else [],
           "outcomes": outcomes, "park_events": parks, "spin_events": spins, "rejected": len(v["rejected"])}
    import explore
    cov["bounded_exhaustive_exploration_tree_bins"] = explore.tree_leg(pid, tier, seed, verdict)
    tl = treelock_leg(pid, tier, seed, verdict)
    cov["treelock_step_conformance"] = tl
    cov["states"] = cov.get("states", 0) + tl["tlc_states"]
    cov["transitions"] = cov.get("transitions", 0) + tl["tlc_states"]
    cov["traces_validated_against_impl"] = cov.get("traces_validated_against_impl", 0) + tl["accepted"]
    lib.add_spec_coverage(cov, pid, tier)
    rc = verdict.finish()
    lib.write_evidence(pid, tier, seed, "model_checking", cov, time.time() - t0, len(verdict.violations),
                       ["fairness as the property assumes it", "std::thread::park/unpark token semantics", "parking_lot mutex",
                        "hooks at every blocking site (bin mutex, park, spin loops)"])
    return rc


def treelock_leg(pid, tier, seed, verdict, n=None):
    """Step-level conformance of the tree bins' read-write lock with TreeBinLock.tla (Trace_TreeLock): readers
    and writers on a tree bin under the scheduler, every access to the lock word / waiter slot and every
    park / unpark recorded and replayed."""
    rng = random.Random(seed * 31 + 7)
    n = n or (120 if tier == "quick" else 1500)
    jobs = []
    for i in range(n):
        j = tree_contention_job(rng, "tl%s-%05d" % (pid.lower(), i))
        j["rec"] = ["step"]
        jobs.append(j)
    res = lib.run_jobs(jobs, "tl" + pid.lower(), procs=8, timeout=1800)
    proj, byid = [], {}
    for job, trace, crash in res:
        if crash is not None:
            verdict.violation("crash:treelock:%s" % (crash.get("signal") or crash["rc"]), job["id"], {"job": job, "crash": crash},
                              "the crate crashed/hung while running job %s (%s)" % (job["id"], str(crash)[:300]))
            continue
        p = project.treelock_projection(trace, job)
        if p["ev"]:
            proj.append(p)
            byid[p["id"]] = (job, trace, p)
    v = lib.validate_traces("Trace_TreeLock", proj, "tl" + pid.lower(), workers=6, timeout=1200, chunk=600)
    for rid in v["rejected"]:
        job, trace, p = byid[rid]
        d = lib.diagnose_trace("Trace_TreeLock", p, "tl" + pid.lower())
        fu = d["first_unmatched"] or {"e": "end"}
        job2 = dict(job)
        job2["sched"] = {"kind": "list", "steps": trace["schedule"]}
        verdict.violation("treelock:%s" % fu.get("e"), rid, {"job": job2, "event": fu, "before": p["ev"][max(0, d["matched_events"] - 10):d["matched_events"]],
                                                              "diagnosis": {k: d[k] for k in ("matched_events", "total_events")}},
                          "job %s: lock-word event %d of %d is not a step of TreeBinLock.tla: %s" % (rid, d["matched_events"] + 1, d["total_events"], fu))
    kinds = {}
    for p in proj:
        for e in p["ev"]:
            kinds[e["e"]] = kinds.get(e["e"], 0) + 1
    # binding self-test: a run in which the last reader's unpark is deleted must be rejected
    selftest = "skipped"
    cand = next((p for p in proj if p["id"] in v["accepted"] and any(e["e"] == "unpark" for e in p["ev"])), None)
    if cand is not None:
        bad = {k: v2 for k, v2 in cand.items()}
        i = next(i for i, e in enumerate(cand["ev"]) if e["e"] == "unpark")
        bad["ev"] = cand["ev"][:i] + cand["ev"][i + 1:]
        bad["id"] = "selftest"
        if "selftest" in lib.validate_traces("Trace_TreeLock", [bad], "tlst" + pid.lower(), workers=1)["accepted"]:
            raise lib.ToolError("Trace_TreeLock accepted a run without the wake-up of the waiting writer: the monitor is vacuous")
        selftest = "a run with the last reader's unpark deleted is rejected"
    return {"runs": len(proj), "accepted": len(v["accepted"]), "rejected": len(v["rejected"]), "events_by_kind": kinds, "selftest": selftest,
            "tlc_states": v["states"]}
