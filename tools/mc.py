"""Exhaustive TLC runs of the implementation-shaped specification (leg A).

Each entry: module, cfg, which properties it serves, expectation ("ok" or the invariant a
deliberately wrong variant of the specification must violate - the binding self-test that the
invariants are not vacuous), tier, and the actions that must have been taken (coverage)."""
import re
import time

import lib

CONFIGS = [
    # name, module, cfg, properties, expect, tier, must-cover actions
    ("list1", "MC_Flurry", "MC_list1.cfg", {"C01", "C05", "C11", "C12"}, "ok", "quick", ["PutCas", "Reval", "Walk", "LoadVal"]),
    ("list2", "MC_Flurry", "MC_list2.cfg", {"C01", "C08"}, "ok", "quick", ["TiFast", "Reval"]),
    ("list3", "MC_Flurry", "MC_list3.cfg", {"C01", "C05"}, "ok", "quick", ["Reval"]),
    ("rz1", "MC_Flurry", "MC_rz1.cfg", {"C01", "C05", "C10", "C11", "C12", "C14"}, "ok", "quick",
     ["AcCasStart", "XCasTi", "XStoreFwd", "XSwapTable", "GetFwd", "XCasLeave"]),
    ("rz2", "MC_Flurry", "MC_rz2.cfg", {"C01", "C08", "C10"}, "ok", "quick", ["HLoadNt", "XStoreFwd"]),
    ("init", "MC_Flurry", "MC_init.cfg", {"C01", "C10", "C11", "C14"}, "ok", "thorough", ["InitCasSc", "InitSpin", "InitStoreTable"]),
    # two generations with a delayed helper, fixed code: too large to exhaust (> 85 M states in 40 min): simulated
    ("f6fixed", "MC_Flurry", "MC_f6fixed.cfg", {"C10"}, "sim", "thorough", []),
    # the specification with the pinned code's help_transfer / add_count: TLC must find the findings
    ("f6pinned", "MC_Flurry", "MC_f6pinned.cfg", {"C10"}, "ResizeSafe", "thorough", []),
    ("init_pinned", "MC_Flurry", "MC_init_pinned.cfg", {"C10"}, "ResizeSafe", "thorough", []),
    ("it1", "MC_Flurry", "MC_it1.cfg", {"C07"}, "ok", "quick", ["ItDescend", "ItYield", "XStoreFwd"]),
    ("it2", "MC_Flurry", "MC_it2.cfg", {"C07", "C10"}, "ok", "quick", ["ItDescend", "ItYield"]),
    ("it3", "MC_Flurry", "MC_it3.cfg", {"C07"}, "ok", "quick", ["ItYield", "Reval"]),
    ("it2_mutant", "MC_Flurry", "MC_it2_mutant.cfg", {"C07"}, "IterWeak", "quick", []),
    # retain / retain_force: the conditional removal against replacements, removal + re-insertion, and a resize
    ("rt1", "MC_Flurry", "MC_rt1.cfg", {"C13"}, "ok", "quick", ["RtReval", "ItYield"]),
    ("rt2", "MC_Flurry", "MC_rt2.cfg", {"C13", "C07"}, "ok", "quick", ["RtReval", "XStoreFwd"]),
    ("rt3", "MC_Flurry", "MC_rt3.cfg", {"C13"}, "ok", "quick", ["RtReval"]),
    ("rt1_mutant", "MC_Flurry", "MC_rt1_mutant.cfg", {"C13"}, "RetainOK", "quick", []),
    # abstract tree bins (header + traversal list; TT = 2, MTC = 2, UT = 1): treeification, removals that turn the bin
    # back into a list, a resize that splits / reuses the tree bin, head re-validation after waiting for the bin lock
    ("tree1", "MC_Flurry", "MC_tree1.cfg", {"C01", "C05", "C10"}, "ok", "quick", ["TfReval", "XReval"]),
    ("tree2", "MC_Flurry", "MC_tree2.cfg", {"C10", "C01"}, "ok", "thorough", ["TfReval", "XStoreHi"]),
    ("tree3", "MC_Flurry", "MC_tree3.cfg", {"C10", "C05"}, "ok", "quick", ["TfReval", "XReval"]),
    ("tree3_mutant", "MC_Flurry", "MC_tree3_mutant.cfg", {"C10"}, "ResizeSafe", "quick", []),
    # clear() against a resize that is in the middle of a re-populated bin (finding F8): the fixed clear() waits for the
    # publication (CLRWAIT); the pinned one retires nodes / values still reachable from the current table
    ("clr3", "MC_Flurry", "MC_clr3.cfg", {"C03", "C05"}, "ok", "quick", ["ClrWait", "ClrReval"]),
    ("clr3_pinned", "MC_Flurry", "MC_clr3_pinned.cfg", {"C03"}, "ClearSafe", "quick", []),
    ("clr1", "MC_Flurry", "MC_clr1.cfg", {"C05", "C10"}, "ok", "quick", ["ClrReval", "XStoreFwd"]),
    ("clr2", "MC_Flurry", "MC_clr2.cfg", {"C05", "C07"}, "ok", "quick", ["ClrReval", "ItYield"]),
    # reserve() / try_presize racing the lazy initialisation and an insert (null table, DCAP = 2, one resize)
    ("rsv1", "MC_Flurry", "MC_rsv1.cfg", {"C14", "C10", "C11"}, "ok", "thorough", ["PsCasInit", "PsInitSwap", "PsCasStart"]),
    # an overfull list bin in a short table: put -> treeify_bin -> try_presize(2n), two resize generations
    ("ovf", "MC_Flurry", "MC_ovf.cfg", {"C14", "C10"}, "ok", "thorough", ["PsCasStart", "XSwapTable"]),
    # liveness (C11): LiveSpec = Spec with weak fairness of every thread's next step; PROPERTY Termination = <>AllDone, no
    # VIEW (history variables stay in the state). A thread whose only enabled step is a fruitless spin (pc and state
    # unchanged) is not forced on by fairness, so "spins for ever once everybody else is done" violates Termination.
    ("clr3_live", "MC_Flurry", "MC_clr3_live.cfg", {"C11"}, "ok", "quick", []),
    ("clr3_live_mutant", "MC_Flurry", "MC_clr3_live_mutant.cfg", {"C11"}, "Termination", "quick", []),
    ("rz2_live", "MC_Flurry", "MC_rz2_live.cfg", {"C11"}, "ok", "quick", []),
    ("it2_live", "MC_Flurry", "MC_it2_live.cfg", {"C11"}, "ok", "quick", []),
    ("init2_live", "MC_Flurry", "MC_init2_live.cfg", {"C11"}, "ok", "quick", []),
    ("list1_live", "MC_Flurry", "MC_list1_live.cfg", {"C11"}, "ok", "thorough", []),
    ("list2_live", "MC_Flurry", "MC_list2_live.cfg", {"C11"}, "ok", "thorough", []),
    ("rt2_live", "MC_Flurry", "MC_rt2_live.cfg", {"C11"}, "ok", "thorough", []),
    ("tree2_live", "MC_Flurry", "MC_tree2_live.cfg", {"C11"}, "ok", "thorough", []),
    ("clr1_live", "MC_Flurry", "MC_clr1_live.cfg", {"C11"}, "ok", "thorough", []),
    ("clr2_live", "MC_Flurry", "MC_clr2_live.cfg", {"C11"}, "ok", "thorough", []),
    # a whole resize generation (add_count start, stride claims, forwarding, leave / finish, publication) with helpers
    ("rz1_live", "MC_Flurry", "MC_rz1_live.cfg", {"C11"}, "ok", "thorough", []),
    # reserve() / try_presize racing the lazy initialisation and an insert: every presize loop terminates
    ("rsv1_live", "MC_Flurry", "MC_rsv1_live.cfg", {"C11"}, "ok", "thorough", []),
    # try_presize retrying its initialisation CAS with a stale size_ctl (PsCasInit <- PsCasInitWrong) must violate Termination
    ("rsv1_live_mutant", "MC_Flurry", "MC_rsv1_live_mutant.cfg", {"C11"}, "Termination", "thorough", []),
    # an overfull bin in a short table: put -> treeify_bin -> try_presize(2n) across two resize generations
    ("ovf_live", "MC_Flurry", "MC_ovf_live.cfg", {"C11"}, "ok", "thorough", []),
    ("rt3_live", "MC_Flurry", "MC_rt3_live.cfg", {"C11"}, "ok", "thorough", []),
    ("tree3_live", "MC_Flurry", "MC_tree3_live.cfg", {"C11"}, "ok", "thorough", []),
    ("it3_live", "MC_Flurry", "MC_it3_live.cfg", {"C11"}, "ok", "thorough", []),
    ("list3_live", "MC_Flurry", "MC_list3_live.cfg", {"C11"}, "ok", "thorough", []),
    ("tree1_live", "MC_Flurry", "MC_tree1_live.cfg", {"C11"}, "ok", "thorough", []),
    ("rt1_live", "MC_Flurry", "MC_rt1_live.cfg", {"C11"}, "ok", "thorough", []),
    ("sizing", "Sizing", "Sizing.cfg", {"C14", "C10"}, "ok", "quick", []),
    ("reclaim", "Reclaim", "MC_Reclaim.cfg", {"C03", "C04"}, "ok", "quick", []),
    ("reclaim_unprotected", "Reclaim", "MC_Reclaim_unprotected.cfg", {"C03"}, "NoUseAfterFree", "quick", []),
    ("reclaim_retirefirst", "Reclaim", "MC_Reclaim_retirefirst.cfg", {"C03"}, "ReachableLive", "quick", []),
    # the red-black algorithms of node.rs transcribed (TreeBinOps / TreeBinRB): every insertion / removal sequence
    ("rb_full7", "MC_TreeBinRB", "MC_TreeBinRB_full.cfg", {"C06"}, "ok", "quick", []),
    ("rb_tree10", "MC_TreeBinRB", "MC_TreeBinRB_v10.cfg", {"C06"}, "ok", "quick", []),
    ("rb_tree12", "MC_TreeBinRB", "MC_TreeBinRB_v12.cfg", {"C06"}, "ok", "quick", []),
    ("rb_tree14", "MC_TreeBinRB", "MC_TreeBinRB_v14.cfg", {"C06"}, "ok", "thorough", []),
    ("rb_mutant", "MC_TreeBinRB", "MC_TreeBinRB_mutant.cfg", {"C06"}, "RBInvariants", "quick", []),
    ("treelock", "MC_TreeBinLock", "MC_TreeBinLock.cfg", {"C11", "C12", "C01"}, "ok", "quick", ["ContPark", "FindUnpark", "SpuriousWake"]),
    ("treelock_live", "MC_TreeBinLock", "MC_TreeBinLock_live.cfg", {"C11"}, "ok", "quick", []),
    ("treelock_mutant", "MC_TreeBinLock", "MC_TreeBinLock_mutant.cfg", {"C11"}, "NoDeadlock", "quick", []),
]


def run_for(pid, tier, workers=6):
    """Run the configs serving `pid` for this tier. Returns (coverage dict, total states, total transitions).
    Raises ToolError if a config does not behave as expected (the model, not the code, is off)."""
    out = {}
    states = trans = 0
    for name, module, cfg, props, expect, ctier, must in CONFIGS:
        if pid not in props:
            continue
        if ctier == "thorough" and tier != "thorough":
            continue
        want_cov = bool(must) and pid in ("C01", "C03", "C05", "C07", "C10", "C11", "C13", "C14")
        if expect == "sim":
            r = lib.run_tlc(module, cfg=cfg, workers=workers, timeout=1500, simulate=300000, depth=150, xmx="8g")
            if "Error:" in r["out"] and "violated" in r["out"]:
                raise lib.ToolError("TLC simulation reports an error on %s:\n%s" % (cfg, r["out"][-3000:]))
            m = re.findall(r"(\d+) states checked", r["out"])
            out[name] = {"simulated_states": int(m[-1]) if m else 0, "wall_s": round(r["wall"], 1), "expect": "no violation in simulation"}
            continue
        r = lib.run_tlc(module, cfg=cfg, workers=workers, timeout=3600, coverage=want_cov, xmx="8g")
        ok = "No error has been found" in r["out"]
        viol = re.findall(r"(?:Invariant|Action property|Temporal property) (\w+) (?:is|was) violated", r["out"])
        entry = {"states_generated": r["states"], "distinct_states": r["distinct"], "wall_s": round(r["wall"], 1), "expect": expect}
        if r["timeout"]:
            raise lib.ToolError("TLC timed out on %s" % cfg)
        if expect == "ok":
            if not ok:
                raise lib.ToolError("TLC reports an error on the specification config %s (the model is wrong or was changed):\n%s"
                                    % (cfg, r["out"][-3000:]))
            cov = lib.tlc_coverage(r["out"])
            missing = [a for a in must if cov.get(a, (0, 0))[1] == 0] if want_cov else []
            entry["actions_taken"] = {a: cov[a][1] for a in must if a in cov}
            if must and missing:
                raise lib.ToolError("config %s never takes actions %s: its invariants would be vacuous" % (cfg, missing))
            states += r["distinct"]
            trans += r["states"]
        else:
            if expect not in viol:
                raise lib.ToolError("the deliberately wrong specification variant %s does not violate %s: the invariant is vacuous" % (cfg, expect))
            entry["violated_as_expected"] = expect
        out[name] = entry
    return out, states, trans
